// C06 — Immutable option: values taken from the context stay valid forever; without the
// option they are correct and stable until the handler returns.
//
// History search at WIRE level (app.Server().ServeConn on fx.NewWireConn). A history is a first
// request followed by <= 2 (quick) / <= 3 (thorough) further requests over the same alphabet;
// the first `split` requests are pipelined on one keep-alive connection, the rest on a second
// connection opened after the first one closed (so that fasthttp's RequestCtx with all its
// buffers AND the pooled fiber context are recycled and overwritten with longer, shorter and
// equal-length data). Every request's handler calls EVERY value-returning accessor and keeps
// each result by header (no copy) next to a deep copy.
//
//	oracle 1 (Immutable: true)  at every later check point (entry and exit of every later
//	          handler, after each connection closed) every retained value equals its copy.
//	oracle 2 (both settings)    values captured at handler entry equal their copies after the
//	          handler called all read accessors again, then the response helpers, then SendFile.
//	oracle 3 (differential)     the values a request yields are the same alone on fresh pools and
//	          at any position of any history, the same with and without Immutable, with the
//	          default and the custom context, and equal to hand-written anchors.
//
// Request shapes (shapes.go). The general alphabet may stand at every position of a history. On
// top of it come ~110 request-SHAPE letters, one per branch that the REQUEST selects under an
// accessor or in fasthttp's parser below it (Content-Encoding classes with really encoded bodies,
// chunked / Expect / large / empty bodies, media types and form encodings, absent / empty /
// duplicated / padded / re-cased headers, cookie forms, Host and proxy-header forms, query forms,
// path forms, route shapes, methods, Range forms ...). A shape letter is the FIRST request of a
// shape history; it is followed by its twin (same shape, same length in every component, other
// content: overwrite in place) and by general letters (shorter and longer content: partial
// overwrite, buffer growth). Next to the plain and the rich option set there are single-flag
// option sets: ONE Config field next to Immutable that selects another code path
// (StreamRequestBody, DisablePreParseMultipartForm, ReduceMemoryUsage, DisableHeaderNormalizing,
// TrustProxy with an untrusted peer, UnescapePath, EnableIPValidation, no ProxyHeader, strict +
// case-sensitive routing). A signature carries shape= / opts= only when the accessor is not
// reported for the general alphabet under plain/rich: the defect then needs that code path.
//
// Histories run in worker processes with GOMAXPROCS=1, GC off inside a history and two forced
// GCs between histories: every history starts from empty pools and recycling is deterministic.
package main

import (
	"bytes"
	"encoding/binary"
	"encoding/json"
	"flag"
	"fmt"
	"os"
	"os/exec"
	"path/filepath"
	"reflect"
	"runtime"
	"runtime/debug"
	"runtime/pprof"
	"sort"
	"strconv"
	"strings"
	"sync"
	"time"

	"github.com/gofiber/fiber/v3"
	"github.com/valyala/fasthttp"

	"verifmc/core"
	"verifmc/fx"
)

type config struct {
	Immutable bool
	Ctx       string // default | custom
	Opts      string // plain | rich | one of flagOpts
}

// flagOpts: option sets that switch ONE configuration field next to Immutable which selects
// another code path under an accessor (explored with the default context, both Immutable settings).
var flagOpts = []string{"stream-body", "lazy-multipart", "reduce-memory", "raw-header-names", "untrusted-peer", "unescape-path", "ip-validation", "no-proxy-header", "strict-case-routing"}

func (c config) flag() bool { return c.Opts != "plain" && c.Opts != "rich" }

func (c config) String() string {
	return fmt.Sprintf("immutable=%v ctx=%s opts=%s", c.Immutable, c.Ctx, c.Opts)
}

var configs []config

func init() {
	for _, opts := range []string{"plain", "rich"} {
		for _, ctx := range []string{"default", "custom"} {
			for _, imm := range []bool{true, false} {
				configs = append(configs, config{imm, ctx, opts})
			}
		}
	}
	for _, opts := range flagOpts {
		for _, imm := range []bool{true, false} {
			configs = append(configs, config{imm, "default", opts})
		}
	}
}

type session struct {
	cfg  config
	ci   int
	app  *fiber.App
	srv  *fasthttp.Server
	l    *core.Local
	solo [][]byte // per letter: digest of what the accessors return when the letter is served alone on fresh pools (site letters: on the bare application)
	// the bare application (sites.go), built when a history first needs it
	fc      fiber.Config
	bareApp *fiber.App
	bareSrv *fasthttp.Server
	solo2   [][]byte // per general letter: its solo digest on the bare application

	// per history
	bare      bool // the history runs on the bare application
	open      bool // bare application: a request has reached a site and has not been closed yet
	digestCur []byte
	hist      []int
	split     int
	ord       int64
	step      int
	retained  []*entry
	digests   [][]byte // per request: (id, rendering) of every captured value in capture order (pointer-free: nothing for the GC to scan)
	ncapt     int
	fctxPtr   []uintptr
	ctxPtr    []uintptr
	clobbers  int
	unstable  int
	checked   int64
}

// newSession builds the app of a configuration. full: serve every letter alone right away (the
// baseline oracle compares them all); otherwise a letter's solo values are taken when a history
// first needs them (need).
func newSession(ci int, l *core.Local, full bool) *session {
	s := &session{cfg: configs[ci], ci: ci, l: l}
	fc := fiber.Config{Immutable: s.cfg.Immutable, ProxyHeader: fiber.HeaderXForwardedFor}
	switch s.cfg.Opts {
	case "plain":
	case "rich":
		fc.EnableIPValidation = true
		fc.UnescapePath = true
		fc.EnableSplittingOnParsers = true
		fc.StrictRouting = true
		fc.CaseSensitive = true
		fc.TrustProxy = true
		fc.TrustProxyConfig = fiber.TrustProxyConfig{Loopback: true}
	case "stream-body": // Request.Body() drains a body stream instead of finding the body read
		fc.StreamRequestBody = true
	case "lazy-multipart": // the multipart body stays raw; the form is parsed when an accessor asks for it
		fc.DisablePreParseMultipartForm = true
	case "reduce-memory": // fasthttp hands its read/write buffers back between requests
		fc.ReduceMemoryUsage = true
	case "raw-header-names": // header names are kept as sent
		fc.DisableHeaderNormalizing = true
	case "untrusted-peer": // TrustProxy on, the peer is not trusted: IP/Host/Scheme come from the connection and the Host header
		fc.TrustProxy = true
	case "unescape-path": // c.path is decoded in place, routing stays case-insensitive
		fc.UnescapePath = true
	case "ip-validation": // IP()/IPs() scan the proxy header for valid addresses
		fc.EnableIPValidation = true
	case "no-proxy-header": // IP() is the peer address
		fc.ProxyHeader = ""
	case "strict-case-routing": // the detection path is neither lower-cased nor trimmed
		fc.StrictRouting = true
		fc.CaseSensitive = true
	default:
		core.Fatal("unknown option set %q", s.cfg.Opts)
	}
	s.fc = fc
	app := fiber.New(fc)
	if s.cfg.Ctx == "custom" {
		app.NewCtxFunc(func(app *fiber.App) fiber.CustomCtx {
			return &customCtx{DefaultCtx: *fiber.NewDefaultCtx(app)}
		})
	}
	app.Use(func(c fiber.Ctx) error { return c.Next() })
	app.Get("/named/:id/:name?", func(c fiber.Ctx) error { return nil }).Name("named")
	for _, p := range append([]string{"/u/:id/:name?", "/w/*", "/p/+", "/m/:a/*", "/s"}, shapeRoutes...) {
		app.All(p, s.handle)
	}
	_ = app.Handler() // startup processing
	s.app, s.srv = app, app.Server()
	s.solo = make([][]byte, len(alphabet))
	s.solo2 = make([][]byte, nGeneral)
	if full {
		var letters []int
		for li := range alphabet {
			if s.cfg.flag() && li >= nGeneral+nShapes {
				continue // single-flag option sets: the twins (same shape, other content) add nothing to the solo comparisons; no bare application
			}
			letters = append(letters, li)
		}
		s.need(letters, false)
	}
	return s
}

func (s *session) connOf(step int) string {
	if step < s.split {
		return "A"
	}
	return "B"
}

func (s *session) caseOf() map[string]any {
	names := make([]string, len(s.hist))
	for i, li := range s.hist {
		names[i] = alphabet[li].Name
	}
	return map[string]any{"config": s.cfg.String(), "config_index": s.ci, "history": names, "history_letters": append([]int(nil), s.hist...),
		"requests_on_first_connection": s.split, "ord": s.ord, "sendfile_pass": *flagSendFile, "bare_app": s.bare}
}

// violate records a violation; the case is only built for the first occurrence of a signature
// in this worker (histories are visited in increasing order, so that is the smallest one).
func (s *session) violate(sig string, build func() (what string, cs map[string]any, observed, expected any)) {
	if v, ok := s.l.P.Violations[sig]; ok {
		v.Count++
		return
	}
	what, cs, o, e := build()
	s.l.Violate(sig, what, cs, o, e)
}

// qual qualifies a signature with what the general exploration does not have: a single-flag option
// set and/or the shape class of the request whose values are concerned. Qualified signatures are
// folded into the unqualified one at the end of the run when that was reported too (foldQualified):
// what remains qualified is a defect that ONLY shows on that code path.
func (s *session) qual(e *entry, li int) string { return qualOf(s.cfg, li, e.Site, e.Form) }

// qualOrder: the qualifiers a signature may end in, in the order they are written.
var qualOrder = []string{"opts", "site", "form", "shape"}

func qualOf(cf config, li int, site, form string) string {
	q := ""
	if cf.flag() {
		q += " opts=" + cf.Opts
	}
	q += qualSF(site, form)
	if sh := alphabet[li].Shape; sh != "" {
		q += " shape=" + strings.NewReplacer(",", "+", " ", ",", "=", ":").Replace(sh)
	}
	return q
}

// foldCandidates: the less qualified signatures a qualified one is folded into, most general first
// (fewest qualifiers; among those with the same number, the one that drops the later qualifiers).
func foldCandidates(sig string) []string {
	toks := strings.Split(sig, " ")
	n := len(toks)
	isQual := func(t string) bool {
		for _, q := range qualOrder {
			if strings.HasPrefix(t, q+"=") {
				return true
			}
		}
		return false
	}
	for n > 0 && isQual(toks[n-1]) {
		n--
	}
	base, quals := strings.Join(toks[:n], " "), toks[n:]
	if len(quals) == 0 {
		return nil
	}
	var out []string
	for keep := 0; keep < len(quals); keep++ {
		for mask := 0; mask < 1<<len(quals); mask++ {
			c, cnt := base, 0
			for i, q := range quals {
				if mask&(1<<(len(quals)-1-i)) != 0 {
					c += " " + q
					cnt++
				}
			}
			if cnt == keep {
				out = append(out, c)
			}
		}
	}
	return out
}

// stem drops the after= token: which later request overwrote the value is a detail of the same defect.
func stem(sig string) string {
	i := strings.Index(sig, " after=")
	if i < 0 {
		return sig
	}
	rest := sig[i+1:]
	if j := strings.IndexByte(rest, ' '); j >= 0 {
		return sig[:i] + rest[j:]
	}
	return sig[:i]
}

// foldQualified: a qualified signature is folded into the first less qualified one that was
// reported itself (for any after= class).
func foldQualified(vs map[string]*core.Violation) {
	stems := map[string]bool{}
	sigs := make([]string, 0, len(vs))
	for sig := range vs {
		stems[stem(sig)] = true
		sigs = append(sigs, sig)
	}
	sort.Strings(sigs)
	for _, sig := range sigs {
		for _, c := range foldCandidates(sig) {
			if !stems[stem(c)] {
				continue
			}
			v := vs[sig]
			delete(vs, sig)
			if o, ok := vs[c]; ok {
				o.Count += v.Count
			} else {
				v.Signature = c
				vs[c] = v
			}
			break
		}
	}
}

func lenRel(a, b int) string {
	switch {
	case a > b:
		return "longer"
	case a < b:
		return "shorter"
	}
	return "equal"
}

// checkRetained is oracle 1. t is the request being (or just) served, -1 after a connection closed.
func (s *session) checkRetained(t int, phase string) {
	for _, e := range s.retained {
		if e.dead {
			continue
		}
		s.checked++
		if e.intact() {
			continue
		}
		e.dead = true
		s.clobbers++
		comp := component(e.Acc)
		after := "connection-close"
		if t >= 0 {
			conn := "second-conn"
			if s.connOf(t) == s.connOf(e.step) {
				conn = "same-conn"
			}
			if t == e.step {
				after = "same-request" // bare application: a later site of the request the value was obtained in
			} else if comp == "other" || comp == "response" {
				after = "any-" + comp + "-" + conn
			} else {
				after = lenRel(alphabet[s.hist[t]].comp[comp], alphabet[s.hist[e.step]].comp[comp]) + "-" + comp + "-" + conn
			}
		}
		s.violate("immutable-clobbered accessor="+sigAcc(e.Acc)+" after="+after+s.qual(e, s.hist[e.step]), func() (string, map[string]any, any, any) {
			cs := s.caseOf()
			if t >= 0 {
				cs["clobbered_by_request"] = fmt.Sprintf("#%d %s", t, alphabet[s.hist[t]].Name)
			}
			cs["captured_in_request"] = fmt.Sprintf("#%d %s", e.step, alphabet[s.hist[e.step]].Name)
			cs["captured_request_raw"] = string(alphabet[s.hist[e.step]].raw)
			if t >= 0 {
				cs["clobbering_request_raw"] = string(alphabet[s.hist[t]].raw)
			}
			cs["first_seen_at"] = phase
			cs["accessor"] = e.Acc
			cs["key"] = e.Key
			return "Immutable is on, yet a value kept from an earlier handler no longer has the content it had when the handler obtained it",
				cs, clip(e.now()), clip(e.cp)
		})
	}
}

// checkCur is oracle 2: values obtained at handler entry are unchanged after a group of calls.
func (s *session) checkCur(cur []*entry, t int, group string) {
	for _, e := range cur {
		if e.dead {
			continue
		}
		if group != "read-accessors" && component(e.Acc) == "response" {
			// values read from the RESPONSE are legitimately affected by the handler's own
			// response writes; the statement speaks of values derived from the request
			continue
		}
		s.checked++
		if e.intact() {
			continue
		}
		e.dead = true
		s.unstable++
		s.violate(fmt.Sprintf("handler-unstable accessor=%s by=%s immutable=%v", sigAcc(e.Acc), group, s.cfg.Immutable)+s.qual(e, s.hist[t]), func() (string, map[string]any, any, any) {
			cs := s.caseOf()
			cs["request"] = fmt.Sprintf("#%d %s", t, alphabet[s.hist[t]].Name)
			cs["accessor"] = e.Acc
			cs["key"] = e.Key
			return "a value obtained at handler entry changed before the handler returned although the handler only read the request and wrote the response",
				cs, clip(e.now()), clip(e.cp)
		})
	}
}

func ptrOf(v any) uintptr { return reflect.ValueOf(v).Pointer() }

func (s *session) handle(c fiber.Ctx) error {
	t := s.step
	s.step++
	if t >= len(s.hist) {
		core.Fatal("handler called %d times for a history of %d requests", t+1, len(s.hist))
	}
	s.fctxPtr = append(s.fctxPtr, ptrOf(c.RequestCtx()))
	s.ctxPtr = append(s.ctxPtr, ptrOf(c))
	s.checkRetained(t, "handler-entry")
	cur := s.capture(c, t, true)
	s.digests = append(s.digests, s.encodeDigest(cur, alphabet[s.hist[t]]))
	s.ncapt += len(cur)
	s.readOnly(c, t)
	s.checkCur(cur, t, "read-accessors")
	s.respond(c)
	s.checkCur(cur, t, "response-helpers")
	if *flagSendFile {
		s.sendFile(c)
		s.checkCur(cur, t, "sendfile")
	}
	s.checkRetained(t, "handler-exit")
	if s.cfg.Immutable {
		for _, e := range cur {
			if !e.dead {
				s.retained = append(s.retained, e)
			}
		}
	}
	return nil
}

func (s *session) serve(from, to int) {
	var in []byte
	for _, li := range s.hist[from:to] {
		in = append(in, alphabet[li].raw...)
	}
	conn := fx.NewWireConn(in, nil)
	if s.bare {
		if s.bareSrv == nil {
			s.buildBare(s.fc)
		}
		_ = s.bareSrv.ServeConn(conn)
		s.leave() // a request fasthttp refused is closed here
	} else {
		_ = s.srv.ServeConn(conn)
	}
	if s.step != to {
		core.Fatal("%s: history %v: %d of %d requests reached the handler; server wrote %q", s.cfg, s.hist, s.step, to, clip(string(conn.Output())))
	}
}

var tGC, tServe time.Duration

// run executes one history from empty pools.
func (s *session) run(hist []int, split int, ord int64, bare bool) {
	t0 := time.Now()
	runtime.GC()
	runtime.GC()
	t1 := time.Now()
	tGC += t1.Sub(t0)
	s.hist, s.split, s.ord, s.step, s.bare, s.open = hist, split, ord, 0, bare, false
	clear(s.retained) // what the previous history kept must not stay reachable (GC work, memory)
	clear(s.digests)
	s.retained, s.digests, s.fctxPtr, s.ctxPtr = s.retained[:0], s.digests[:0], s.fctxPtr[:0], s.ctxPtr[:0]
	s.clobbers, s.unstable, s.ncapt = 0, 0, 0
	s.serve(0, split)
	s.checkRetained(-1, "first-connection-closed")
	if split < len(hist) {
		s.serve(split, len(hist))
		s.checkRetained(-1, "second-connection-closed")
	}
	tServe += time.Since(t1)
}

func clobberBucket(n int) string {
	switch {
	case n == 0:
		return "0"
	case n <= 20:
		return "1-20"
	}
	return ">20"
}

// account does the bookkeeping and the differential oracle for the history just run.
func (s *session) account() {
	l := s.l
	l.Add("traces", 1)
	l.Add("states", 1) // the state reached at the end of this history is reached by no shorter history
	l.Add("transitions", int64(len(s.hist)))
	l.Add("connection_close_transitions", int64(1+b2i(s.split < len(s.hist))))
	l.Add("retained_value_checks", s.checked)
	l.Add("values_captured", int64(s.ncapt))
	l.Add("retained_values_clobbered", int64(s.clobbers))
	s.checked = 0
	for t := 1; t < len(s.hist); t++ {
		if s.ctxPtr[t] == s.ctxPtr[t-1] {
			l.Add("fiber_ctx_recycled", 1)
		}
		if s.fctxPtr[t] == s.fctxPtr[t-1] {
			if s.connOf(t) != s.connOf(t-1) {
				l.Add("fasthttp_ctx_recycled_across_connections", 1)
			} else {
				l.Add("fasthttp_ctx_reused_on_connection", 1)
			}
		}
		for u := 0; u < t; u++ {
			l.Add("overwrite_path_"+lenRel(alphabet[s.hist[t]].comp["path"], alphabet[s.hist[u]].comp["path"]), 1)
			l.Add("overwrite_body_"+lenRel(alphabet[s.hist[t]].comp["body"], alphabet[s.hist[u]].comp["body"]), 1)
		}
	}
	conns := 1 + b2i(s.split < len(s.hist))
	first := "general"
	if s.bare {
		first = "bare-app"
		l.Add("bare_app_histories", 1)
		for _, li := range s.hist {
			if li >= siteBase {
				l.Add("siteclass/"+alphabet[li].Shape, 1)
			}
		}
	} else if f := alphabet[s.hist[0]]; f.Shape != "" {
		first = "shape"
		l.Add("shape_histories", 1)
		l.Add("shape/"+f.Shape, 1)
		for t := 1; t < len(s.hist); t++ {
			if s.hist[t] == f.Twin {
				l.Add("shape_overwritten_by_twin", 1)
			} else {
				l.Add("shape_overwritten_by_general_letter", 1)
			}
		}
	}
	if first == "general" && len(s.hist) == 2 && alphabet[s.hist[1]].Shape != "" && s.hist[1] < nGeneral+nShapes {
		first = "general-then-shape"
		l.Add("shape_second_histories", 1)
	}
	opts := s.cfg.Opts
	if s.cfg.flag() {
		opts = "single-flag"
		l.Add("single_flag_config_histories", 1)
	}
	l.Outcome(fmt.Sprintf("immutable=%v ctx=%s opts=%s first=%s requests=%d conns=%d clobbered=%s unstable=%v", s.cfg.Immutable, s.cfg.Ctx, opts, first, len(s.hist), conns, clobberBucket(s.clobbers), s.unstable > 0))
	// differential: position independence
	for t, d := range s.digests {
		lt := alphabet[s.hist[t]]
		if bytes.Equal(d, s.soloOf(s.hist[t])) {
			continue
		}
		got, ref := decodeDigest(d), decodeDigest(s.soloOf(s.hist[t]))
		for _, id := range diffIDs(got, ref) {
			site, acc, form := parseID(id)
			s.violate(fmt.Sprintf("value-depends-on-history accessor=%s immutable=%v", sigAcc(acc), s.cfg.Immutable)+qualSF(site, form), func() (string, map[string]any, any, any) {
				cs := s.caseOf()
				cs["request"] = fmt.Sprintf("#%d %s", t, lt.Name)
				cs["value"] = id
				return "an accessor returned another value than for the same request served alone on fresh pools", cs, clip(got[id]), clip(ref[id])
			})
		}
	}
}

func b2i(b bool) int {
	if b {
		return 1
	}
	return 0
}

// unspecified: values the differential oracle is silent about. fasthttp parses a multipart body
// while it reads the request and re-serialises it on every Body() call in map-iteration order
// of the parts: the order of the parts in Body()/BodyRaw() is not fixed (each call returns a
// fresh buffer, so the retention oracles still apply). String() prints a request counter.
func (l *letter) unspecified(id string) bool {
	if strings.HasPrefix(id, "String|") {
		return true
	}
	if bytes.HasPrefix(l.Body, []byte("--"+boundary)) {
		switch id {
		case "Body|", "BodyRaw|", "Req.Body|", "Req.BodyRaw|":
			return true
		}
	}
	return false
}

func (s *session) encodeDigest(cur []*entry, lt *letter) []byte {
	n := 0
	for _, e := range cur {
		n += len(e.Acc) + len(e.Form) + len(e.Site) + len(e.Key) + len(e.cp) + 12
	}
	b := make([]byte, 0, n)
	for _, e := range cur {
		if lt.unspecified(e.Acc+"|"+e.Key) || (e.Site == "middleware-after-next" && component(e.Acc) == "response") {
			// ... and what a middleware reads from the RESPONSE after the downstream handlers wrote it
			s.l.Add("unspecified_skipped", 1) // String() prints a request counter; part order of a multipart Body()
			continue
		}
		id := e.id()
		b = binary.AppendUvarint(b, uint64(len(id)))
		b = append(b, id...)
		b = binary.AppendUvarint(b, uint64(len(e.cp)))
		b = append(b, e.cp...)
	}
	return b
}

func decodeDigest(b []byte) map[string]string {
	m := map[string]string{}
	for len(b) > 0 {
		n, k := binary.Uvarint(b)
		id := string(b[k : k+int(n)])
		b = b[k+int(n):]
		n, k = binary.Uvarint(b)
		m[id] = string(b[k : k+int(n)])
		b = b[k+int(n):]
	}
	return m
}

func diffIDs(a, b map[string]string) []string {
	var out []string
	for id, v := range a {
		if w, ok := b[id]; !ok || w != v {
			out = append(out, id)
		}
	}
	for id := range b {
		if _, ok := a[id]; !ok {
			out = append(out, id)
		}
	}
	sort.Strings(out)
	return out
}

// need serves the given letters alone on fresh pools, unless done before, and
// keeps what the accessors returned: the reference of the position-independence oracle.
func (s *session) need(letters []int, bare bool) {
	for _, li := range letters {
		slot := &s.solo[li]
		onBare := li >= siteBase // the site letters only ever run on the bare application
		if bare && !onBare {
			slot, onBare = &s.solo2[li], true
		}
		if *slot != nil {
			continue
		}
		t0 := time.Now()
		s.run([]int{li}, 1, -1, onBare)
		if os.Getenv("C06_TIMING") == "solo" {
			fmt.Fprintf(os.Stderr, "solo %-32s %8.2fms values=%d\n", alphabet[li].Name, float64(time.Since(t0).Microseconds())/1000, s.ncapt)
		}
		*slot = s.digests[0]
		s.digests = nil
		s.l.Add("solo_runs", 1)
		s.l.Add("states", 1)
		s.l.Add("transitions", 1)
		s.l.Add("connection_close_transitions", 1)
		s.checked = 0
	}
}

// soloOf: the reference of the position-independence oracle for a letter of the current history.
func (s *session) soloOf(li int) []byte {
	if s.bare && li < siteBase {
		return s.solo2[li]
	}
	return s.solo[li]
}

// baselineOracle: anchors and cross-configuration equality of the solo values. The option sets are
// dealt out to the workers (only configurations with the same option set are compared); worker < 0
// does them all.
func baselineOracle(l *core.Local, worker, nw int) {
	solos := make([][][]byte, len(configs)) // digests: nothing for the GCs of the solo runs to scan
	scratch := core.NewLocal()              // the baseline counters of these throw-away sessions are not evidence
	group := map[string]int{}
	for _, cf := range configs {
		if _, ok := group[cf.Opts]; !ok {
			group[cf.Opts] = len(group)
		}
	}
	mine := func(cf config) bool { return worker < 0 || group[cf.Opts]%nw == worker }
	for ci := range configs {
		if !mine(configs[ci]) {
			continue
		}
		solos[ci] = newSession(ci, scratch, true).solo
	}
	for sig, v := range scratch.P.Violations { // oracle 2 applies to the solo runs too
		l.P.Violations[sig] = v
	}
	for ci, cf := range configs {
		if !mine(cf) {
			continue
		}
		if cf.Opts == "plain" {
			for li, lt := range alphabet {
				if len(lt.Want) == 0 {
					continue
				}
				solo := decodeDigest(solos[ci][li])
				for _, id := range sortedKeys(lt.Want) {
					l.Add("anchors_checked", 1)
					if got := solo[id]; got != lt.Want[id] { // an empty value is not recorded
						site, acc, form := parseID(id)
						l.Violate(fmt.Sprintf("value-incorrect accessor=%s letter=%s", acc, lt.Name)+qualSF(site, form), "an accessor does not return the value the request carries",
							map[string]any{"config": cf.String(), "request": string(lt.raw), "value": id, "ord": -1}, clip(got), lt.Want[id])
					}
				}
			}
		}
		// same option set, other Immutable / ctx setting: same values
		for oi, of := range configs {
			if oi <= ci || of.Opts != cf.Opts {
				continue
			}
			what := "ctx"
			if of.Ctx == cf.Ctx {
				what = "immutable"
			} else if of.Immutable != cf.Immutable {
				continue
			}
			for li, lt := range alphabet {
				if solos[ci][li] == nil || solos[oi][li] == nil {
					continue
				}
				l.Add("cross_config_comparisons", 1)
				if bytes.Equal(solos[ci][li], solos[oi][li]) {
					continue
				}
				m1, m2 := decodeDigest(solos[ci][li]), decodeDigest(solos[oi][li])
				for _, id := range diffIDs(m1, m2) {
					_, in1 := m1[id]
					_, in2 := m2[id]
					if !in1 || !in2 {
						continue // the Req() twins are not exercised with the custom context
					}
					site, acc, form := parseID(id)
					l.Violate(fmt.Sprintf("value-differs-across-config accessor=%s between=%s", sigAcc(acc), what)+qualOf(cf, li, site, form), "the same request yields different values under two configurations that must not affect it",
						map[string]any{"configs": []string{cf.String(), of.String()}, "letter": lt.Name, "value": id, "ord": -1}, clip(m2[id]), clip(m1[id]))
				}
			}
		}
	}
}

// ---------------------------------------------------------------------------
// enumeration

type item struct {
	ci    int
	pos   int64 // position among the histories of this configuration
	hist  []int
	split int
	bare  bool // runs on the bare application (sites.go)
}

// plan: what is enumerated for one configuration.
//
//	general part  every history of 1..genK further requests over the general alphabet (any letter
//	              at any position), every number of requests on the first connection;
//	shape part    first request = a request-shape letter, 1..shapeK further requests out of its
//	              follower set, every placement. lvl[k-1] is the follower set of the histories with
//	              k further requests: 0 = {twin}, 1 = {twin, pickedFollowers}, 2 = {twin, every
//	              general letter}.
//	second part   shapeSecond: a request-shape letter as the SECOND request, after every general letter,
//	              every placement: the shape's branch runs on a context and on buffers another kind of
//	              request has used (judged by the position-independence oracle and the retention oracles).
type plan struct {
	genK, shapeK int
	lvl          [3]int
	shapeSecond  bool
	// bare application (sites.go): bareK = 0 none; >= 1: every site letter followed by one request out
	// of {twin, every site letter, every general letter} and every general letter followed by every
	// site letter; >= 2: every site letter followed by two requests out of bareFollowers(lvl bareLvl)
	bareK, bareLvl int
}

// pickedFollowers: the general letters that are longer than the shape letters in every component,
// without and with a body (the requests that make the buffers grow; the twin overwrites in place).
var pickedFollowers = []string{"get-long-wildcard", "post-multipart"}

func followers(si, lvl int) []int {
	w := []int{alphabet[si].Twin}
	switch lvl {
	case 1:
		for _, n := range pickedFollowers {
			for i := 0; i < nGeneral; i++ {
				if alphabet[i].Name == n {
					w = append(w, i)
				}
			}
		}
	case 2:
		for i := 0; i < nGeneral; i++ {
			w = append(w, i)
		}
	}
	return w
}

// planOf: bounds per tier, configuration and pass.
//
//	quick     plain option set: general 2 further requests; shapes 1 further request out of
//	          {twin, all general letters} and 2 out of {twin, picked}.
//	          rich option set (UnescapePath, EnableSplittingOnParsers, EnableIPValidation, strict +
//	          case-sensitive routing, TrustProxy): general 1; shapes 1 out of {twin, picked}.
//	          single-flag option sets: general 1; shapes 1 out of {twin, picked}.
//	thorough  plain and rich: general 3; shapes 2 out of {twin, all general}.
//	          single-flag option sets: general 2; shapes 2 out of {twin, picked}.
//	plain (quick), plain and rich (thorough): a shape letter as second request after every general letter.
//	bare application (capture sites, sites.go): quick: plain and rich/default-context: one further request;
//	          plain/default-context: two out of the picked followers. thorough: two out of the picked followers
//	          for every plain and rich configuration.
//
// The SendFile pass (plain and rich only) is one general request shallower (never below 1) and
// follows a shape letter by its twin only: fasthttp's file handler initialises package mime (12k
// live objects from /etc/mime.types), which makes the two GCs per history four times dearer, and
// SendFile only matters to oracle 2, which looks at one handler at a time.
func planOf(r *core.Run, sendfile bool) func(ci int) plan {
	return func(ci int) plan {
		cf := configs[ci]
		var p plan
		switch {
		case cf.flag() && sendfile:
			return plan{}
		case cf.flag():
			p = plan{genK: 2, shapeK: 2, lvl: [3]int{1, 1}}
			if r.Quick() {
				p = plan{genK: 1, shapeK: 1, lvl: [3]int{1}}
			}
		default:
			p = plan{genK: 3, shapeK: 2, lvl: [3]int{2, 2}, shapeSecond: true}
			if r.Quick() {
				p = plan{genK: 2, shapeK: 2, lvl: [3]int{2, 1}, shapeSecond: true}
				if cf.Opts == "rich" {
					p = plan{genK: 1, shapeK: 1, lvl: [3]int{1}}
				}
			}
		}
		// the bare application (capture sites): plain and rich option sets
		switch {
		case cf.flag():
		case r.Quick() && cf.Opts == "plain" && cf.Ctx == "default":
			p.bareK, p.bareLvl = 2, 0
		case r.Quick() && (cf.Opts == "plain" || cf.Ctx == "default"):
			p.bareK = 1
		case r.Quick():
		default:
			p.bareK, p.bareLvl = 2, 0
		}
		if sendfile {
			if p.genK > 1 {
				p.genK--
			}
			p.shapeK, p.lvl, p.shapeSecond, p.bareK = 1, [3]int{0}, false, 0
		}
		return p
	}
}

func ipow(n, k int) int {
	t := 1
	for i := 0; i < k; i++ {
		t *= n
	}
	return t
}

// forEachHistory enumerates every history in a fixed order: configuration x (general part: number
// of further requests x letters x placement; shape part: number of further requests x shape letter
// x followers x placement). want is asked with the weight (a cost estimate: requests + the
// constant per-history work) of all histories before this one; the totals are returned.
func forEachHistory(pl func(ci int) plan, want func(ci int, before int64) bool, fn func(idx int64, it item)) (count, weight int64) {
	var idx, cum int64
	for ci := range configs {
		p := pl(ci)
		var pos int64
		emit := func(k int, mk func() []int) {
			var hist []int
			for split := 1; split <= k+1; split++ {
				if want(ci, cum) {
					if hist == nil {
						hist = mk()
					}
					fn(idx, item{ci, pos, hist, split, false})
				}
				idx++
				pos++
				cum += int64(k + 3)
			}
		}
		// bare application: requests are captured at up to three sites (twice the weight)
		emitBare := func(hist ...int) {
			for split := 1; split <= len(hist); split++ {
				if !closerOK(hist, split) {
					continue
				}
				if want(ci, cum) {
					fn(idx, item{ci, pos, hist, split, true})
				}
				idx++
				pos++
				cum += int64(2 * (len(hist) + 2))
			}
		}
		n := nGeneral
		for k := 1; k <= p.genK; k++ {
			total := ipow(n, k+1)
			for code := 0; code < total; code++ {
				emit(k, func() []int {
					hist := make([]int, k+1)
					c := code
					for i := k; i >= 0; i-- {
						hist[i] = c % n
						c /= n
					}
					return hist
				})
			}
		}
		for k := 1; k <= p.shapeK; k++ {
			for si := nGeneral; si < nGeneral+nShapes; si++ {
				w := followers(si, p.lvl[k-1])
				total := ipow(len(w), k)
				for code := 0; code < total; code++ {
					emit(k, func() []int {
						hist := make([]int, k+1)
						hist[0] = si
						c := code
						for i := k; i >= 1; i-- {
							hist[i] = w[c%len(w)]
							c /= len(w)
						}
						return hist
					})
				}
			}
		}
		if p.shapeSecond {
			for g := 0; g < nGeneral; g++ {
				for si := nGeneral; si < nGeneral+nShapes; si++ {
					emit(1, func() []int { return []int{g, si} })
				}
			}
		}
		if p.bareK >= 1 {
			for si := siteBase; si < siteBase+nSites; si++ {
				for _, f := range bareFollowers(si, 1) {
					emitBare(si, f)
				}
			}
			for g := 0; g < nGeneral; g++ {
				for si := siteBase; si < siteBase+nSites; si++ {
					emitBare(g, si)
				}
			}
		}
		if p.bareK >= 2 {
			for si := siteBase; si < siteBase+nSites; si++ {
				w := bareFollowers(si, p.bareLvl)
				for _, a := range w {
					for _, b := range w {
						emitBare(si, a, b)
					}
				}
			}
		}
	}
	return idx, cum
}

func runWorker(r *core.Run) {
	if pf := os.Getenv("C06_CPUPROFILE"); pf != "" && r.Worker == 0 {
		f, _ := os.Create(pf)
		_ = pprof.StartCPUProfile(f)
	}
	debug.SetGCPercent(-1)
	if runtime.GOMAXPROCS(0) != 1 {
		core.Fatal("worker must run with GOMAXPROCS=1")
	}
	l := core.NewLocal()
	if !*flagSendFile {
		baselineOracle(l, r.Worker, r.NWorkers)
	}
	var s *session
	capped := false
	mine := 0
	// every worker takes a contiguous stretch of the enumeration of (about) the same weight: it
	// builds an app and a solo baseline only for the few configurations its stretch touches
	pl := planOf(r, *flagSendFile)
	_, totalWeight := forEachHistory(pl, func(int, int64) bool { return false }, nil)
	lo, hi := totalWeight*int64(r.Worker)/int64(r.NWorkers), totalWeight*int64(r.Worker+1)/int64(r.NWorkers)
	forEachHistory(pl, func(_ int, before int64) bool { return !capped && before >= lo && before < hi }, func(idx int64, it item) {
		mine++
		if mine%32 == 0 && r.Expired() {
			capped = true
			r.Cap("wall-clock budget reached before all histories were explored")
			return
		}
		if s == nil || s.ci != it.ci {
			s = nil
			s = newSession(it.ci, l, false)
			l.Add("sessions", 1)
		}
		s.need(it.hist, it.bare)
		s.run(it.hist, it.split, idx, it.bare)
		s.account()
		if it.pos%4099 == 0 {
			l.Sample(map[string]any{"history": s.caseOf(), "values_captured": s.ncapt, "retained_values_clobbered": s.clobbers})
		}
	})
	if os.Getenv("C06_TIMING") != "" {
		var ms runtime.MemStats
		runtime.GC()
		runtime.ReadMemStats(&ms)
		fmt.Fprintf(os.Stderr, "worker %d: heap after GC: alloc=%d objects=%d sys=%d\n", r.Worker, ms.HeapAlloc, ms.HeapObjects, ms.HeapSys)
		fmt.Fprintf(os.Stderr, "worker %d: histories=%d gc=%v serve=%v\n", r.Worker, mine, tGC, tServe)
	}
	r.Merge(l.P)
	pprof.StopCPUProfile()
	r.Finish(core.Evidence{})
}

// spawn is core.SpawnWorkers with a deterministic merge: partials are folded in worker order and
// the case kept for a signature is the one of the smallest history index.
func spawn(r *core.Run, n int, extra ...string) {
	dir := filepath.Join(core.VerifDir, ".build", "parts", r.Prop)
	if d := os.Getenv("VERIF_EVIDENCE_DIR"); d != "" { // trial on a private copy of the repository
		dir = filepath.Join(d, "parts")
	}
	_ = os.MkdirAll(dir, 0o755)
	parts := make([]*core.Partial, n)
	errs := make([]string, n)
	var wg sync.WaitGroup
	for i := 0; i < n; i++ {
		wg.Add(1)
		go func(i int) {
			defer wg.Done()
			out := filepath.Join(dir, fmt.Sprintf("part%d.json", i))
			_ = os.Remove(out)
			args := []string{"-tier", r.Tier, "-worker", strconv.Itoa(i), "-nworkers", strconv.Itoa(n), "-out", out, "-budget", max(time.Until(r.Deadline), time.Second).String()}
			args = append(args, extra...)
			cmd := exec.Command(os.Args[0], args...)
			cmd.Env = append(os.Environ(), "GOMAXPROCS=1")
			cmd.Stderr = os.Stderr
			if err := cmd.Run(); err != nil {
				errs[i] = err.Error()
				return
			}
			b, err := os.ReadFile(out)
			if err != nil {
				errs[i] = err.Error()
				return
			}
			var p core.Partial
			if err := json.Unmarshal(b, &p); err != nil {
				errs[i] = err.Error()
				return
			}
			parts[i] = &p
			_ = os.Remove(out)
		}(i)
	}
	wg.Wait()
	for i, e := range errs {
		if e != "" {
			core.Fatal("worker %d died: %s", i, e)
		}
	}
	ordOf := func(v *core.Violation) float64 {
		if m, ok := v.Case.(map[string]any); ok {
			if o, ok := m["ord"].(float64); ok {
				return o
			}
		}
		return -1
	}
	best := map[string]*core.Violation{}
	for sig, v := range r.P.Violations { // an earlier pass keeps its case
		cp := *v
		cp.Case = map[string]any{"ord": float64(-2)}
		best[sig] = &cp
	}
	for _, p := range parts {
		for sig, v := range p.Violations {
			if b, ok := best[sig]; !ok || ordOf(v) < ordOf(b) {
				best[sig] = v
			}
		}
	}
	for _, p := range parts {
		if p.Counters == nil {
			p.Counters = map[string]int64{}
		}
		r.Merge(p)
	}
	for sig, b := range best {
		if ordOf(b) == -2 {
			continue
		}
		v := r.P.Violations[sig]
		v.Case, v.Observed, v.Expected, v.What = b.Case, b.Observed, b.Expected, b.What
	}
	sort.Slice(r.P.Samples, func(i, j int) bool { return core.Key(r.P.Samples[i]) < core.Key(r.P.Samples[j]) })
}

func printViolations(l *core.Local) []string {
	sigs := make([]string, 0, len(l.P.Violations))
	for sig := range l.P.Violations {
		sigs = append(sigs, sig)
	}
	sort.Strings(sigs)
	for _, sig := range sigs {
		x := l.P.Violations[sig]
		fmt.Printf("%s (x%d)\n  case: %s\n  observed: %v\n  expected: %v\n", sig, x.Count, core.Key(x.Case), x.Observed, x.Expected)
	}
	return sigs
}

// runReplay re-executes the history of a replay file in this process.
func runReplay(r *core.Run) {
	b, err := os.ReadFile(r.Replay)
	if err != nil {
		core.Fatal("replay: %v", err)
	}
	var v struct {
		Signature string
		Case      struct {
			ConfigIndex int   `json:"config_index"`
			Letters     []int `json:"history_letters"`
			Split       int   `json:"requests_on_first_connection"`
			SendFile    bool  `json:"sendfile_pass"`
			Bare        bool  `json:"bare_app"`
		}
	}
	if err := json.Unmarshal(b, &v); err != nil || len(v.Case.Letters) == 0 {
		core.Fatal("replay: cannot read a history from %s (%v)", r.Replay, err)
	}
	runtime.GOMAXPROCS(1)
	debug.SetGCPercent(-1)
	*flagSendFile = v.Case.SendFile
	l := core.NewLocal()
	s := newSession(v.Case.ConfigIndex, l, false)
	s.need(v.Case.Letters, v.Case.Bare)
	s.run(v.Case.Letters, v.Case.Split, 0, v.Case.Bare)
	s.account()
	hit := false
	sigs := printViolations(l)
	for _, sig := range sigs {
		hit = hit || sig == v.Signature
		for _, c := range foldCandidates(sig) {
			hit = hit || c == v.Signature
		}
	}
	fmt.Printf("replay of %q: reproduced=%v (%d signatures in this history)\n", v.Signature, hit, len(sigs))
	if hit {
		os.Exit(1)
	}
	os.Exit(0)
}

var flagSendFile = flag.Bool("sendfile", false, "internal: worker of the SendFile pass (the handler also serves a file; shallower histories)")

var flagBaseline = flag.Bool("baseline", false, "development aid: run only the solo baseline oracle and print what it finds")

var flagDump = flag.String("dump", "", "development aid: print what the accessors return for the named letter served alone (config index in -dumpcfg)")
var flagDumpCfg = flag.Int("dumpcfg", 0, "development aid: configuration index for -dump")

func main() {
	r := core.Start("C06")
	if *flagDump != "" {
		runtime.GOMAXPROCS(1)
		debug.SetGCPercent(-1)
		s := newSession(*flagDumpCfg, core.NewLocal(), true)
		for li, lt := range alphabet {
			if lt.Name == *flagDump {
				fmt.Printf("%s\n%q\n", s.cfg, lt.raw)
				m := decodeDigest(s.solo[li])
				for _, id := range sortedKeys(m) {
					if m[id] != "" && m[id] != "[]" && m[id] != "{}" {
						fmt.Printf("  %-40s %s\n", id, clip(m[id]))
					}
				}
			}
		}
		os.Exit(0)
	}
	if *flagBaseline {
		runtime.GOMAXPROCS(1)
		debug.SetGCPercent(-1)
		l := core.NewLocal()
		baselineOracle(l, -1, 1)
		printViolations(l)
		os.Exit(0)
	}
	if r.Replay != "" {
		runReplay(r)
	}
	if r.IsWorker() {
		runWorker(r)
		return
	}
	if r.Deadline.IsZero() {
		if r.Quick() {
			r.Deadline = r.Start.Add(8 * time.Minute) // a safety net for a loaded machine: the quick tier takes ~5 CPU-minutes
		} else {
			r.Deadline = r.Start.Add(14 * time.Minute)
		}
	}
	nw := runtime.NumCPU()
	if nw > 32 {
		nw = 32
	}
	spawn(r, nw, "-sendfile") // the small pass first: the budget is then spent on the deep one
	spawn(r, nw)
	c := r.P.Counters
	foldQualified(r.P.Violations)
	nMain, _ := forEachHistory(planOf(r, false), func(int, int64) bool { return false }, nil)
	nSend, _ := forEachHistory(planOf(r, true), func(int, int64) bool { return false }, nil)
	total := nMain + nSend
	if len(r.P.Caps) == 0 {
		if c["traces"] != total {
			core.Fatal("histories executed %d != enumerated %d", c["traces"], total)
		}
		for _, k := range []string{"fiber_ctx_recycled", "fasthttp_ctx_recycled_across_connections", "fasthttp_ctx_reused_on_connection",
			"overwrite_path_longer", "overwrite_path_shorter", "overwrite_path_equal", "overwrite_body_longer", "overwrite_body_shorter", "overwrite_body_equal",
			"retained_value_checks", "anchors_checked", "cross_config_comparisons"} {
			if c[k] == 0 && k == "fiber_ctx_recycled" {
				// an implementation that never recycles its contexts is allowed (the property then holds trivially for that
				// mechanism); the fasthttp-level reuse counters below still have to be non-zero
				r.Note("fiber contexts were never recycled on this tree: the fiber-level pooling mechanism does not exist here")
				continue
			}
			if c[k] == 0 {
				core.Fatal("vacuous exploration: mechanism counter %s is 0", k)
			}
		}
	}
	var names, shapeNames, siteNames []string
	classes := map[string]bool{}
	for i, l := range alphabet {
		switch {
		case i < nGeneral:
			names = append(names, l.Name)
		case i < nGeneral+nShapes:
			shapeNames = append(shapeNames, l.Name+" ["+l.Shape+"]")
			classes[l.Shape] = true
		case i >= siteBase && i < siteBase+nSites:
			siteNames = append(siteNames, l.Name+" ["+l.Shape+"]")
			if c["siteclass/"+l.Shape] == 0 && len(r.P.Caps) == 0 {
				core.Fatal("vacuous exploration: no history of the bare application has a request of class %q", l.Shape)
			}
		}
	}
	// measured: every kind of capture site was reached
	sitesReached := []string{}
	for _, k := range []string{"middleware-before-next", "middleware-after-next", "first-of-two-handlers", "route-handler", "failing-handler", "error-handler"} {
		if c["site/"+k] > 0 {
			sitesReached = append(sitesReached, k)
		} else if len(r.P.Caps) == 0 {
			core.Fatal("vacuous exploration: capture site %q was never reached", k)
		}
	}
	// measured: every shape class was the first request of at least one executed history
	exercised := 0
	for cl := range classes {
		if c["shape/"+cl] > 0 {
			exercised++
		} else if len(r.P.Caps) == 0 {
			core.Fatal("vacuous exploration: no history starts with a request of shape class %q", cl)
		}
	}
	if len(r.P.Caps) == 0 {
		for _, k := range []string{"shape_overwritten_by_twin", "shape_overwritten_by_general_letter", "single_flag_config_histories", "shape_second_histories"} {
			if c[k] == 0 {
				core.Fatal("vacuous exploration: mechanism counter %s is 0", k)
			}
		}
	}
	for k := range c { // the per-class counters are summarised, not listed
		if strings.HasPrefix(k, "shape/") || strings.HasPrefix(k, "siteclass/") {
			delete(c, k)
		}
	}
	c["capture_site_kinds_reached"] = int64(len(sitesReached))
	c["shape_classes"] = int64(len(classes))
	c["shape_classes_exercised"] = int64(exercised)
	cfgs := make([]string, len(configs))
	plans := map[string]any{}
	for i, cf := range configs {
		cfgs[i] = cf.String()
		for _, sf := range []bool{false, true} {
			p := planOf(r, sf)(i)
			key := cf.Opts + ", " + cf.Ctx + " context"
			if cf.flag() {
				key = "single-flag option sets"
			}
			if sf {
				key += " (sendfile pass)"
			}
			plans[key] = map[string]any{"general_max_further_requests": p.genK, "shape_max_further_requests": p.shapeK, "shape_follower_set_per_depth": p.lvl[:p.shapeK], "shape_letter_as_second_request_after_every_general_letter": p.shapeSecond,
				"bare_app_max_further_requests": p.bareK, "bare_app_follower_level": p.bareLvl}
		}
	}
	r.Finish(core.Evidence{
		Level:      "model_checking",
		Exhaustive: true,
		Coverage: map[string]any{
			"states":                        c["states"],
			"transitions":                   c["transitions"] + c["connection_close_transitions"],
			"traces_validated_against_impl": c["traces"],
			"state_definition":              "state = (configuration, requests served so far, which of them went over the first connection); one transition per request served and per connection closed; every state is the end of exactly one enumerated history, so states are counted once, at the end of the history that reaches them (plus the one-request states of the solo baselines)",
			"bounds": map[string]any{"alphabet": names, "shape_letters": shapeNames, "bare_app_site_letters": siteNames, "capture_sites": sitesReached,
				"accessor_call_forms": []string{"plain", "default-given (value present)", "other-case-key (Params)"}, "plans": plans, "configurations": cfgs, "single_flag_option_sets": flagOpts,
				"shape_follower_sets": map[string]any{"0": "twin (same shape, same lengths, other content)", "1": append([]string{"twin"}, pickedFollowers...), "2": "twin + every general letter"},
				"placements":          "first k requests pipelined on one keep-alive connection, the others on a second connection, every k", "workers": nw},
		},
		Assumptions: []string{
			"wire level through app.Server().ServeConn on an in-memory connection; one worker process per CPU with GOMAXPROCS=1, GC disabled inside a history and two forced GCs before it, so that every history starts from empty pools and sync.Pool recycling is deterministic",
			"the second connection is opened after the first one closed: fasthttp then recycles the first connection's RequestCtx (a superset of what a concurrently open second connection would overwrite)",
			"the Req()/Res() twins are exercised with the default context only: with the documented value-embedding custom context they dereference nil (C07's finding)",
			"values reached through the raw fasthttp objects (c.Request(), c.RequestCtx()) are outside the statement and not retained",
			"request-mutating calls (Path(override), Method(override), header writes on the request) are never made; SendFile is treated as a response helper",
			"the order of the parts in Body()/BodyRaw() of a multipart request is left to fasthttp's re-serialisation (map order) and is not compared by the differential oracle",
			"request-shape letters (one per branch a request selects under an accessor) stand only at the first position of a history; they are followed by their equal-length twin and by general letters",
			"a signature carries shape=/opts= only when the same accessor is NOT reported for the general alphabet under the plain/rich option sets, i.e. when the defect needs that request shape / configuration flag",
		},
		MinOutcomes: 4,
	})
}
