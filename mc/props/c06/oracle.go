package main

import (
	"sort"
	"strconv"
	"strings"
)

type kind uint8

const (
	kStr kind = iota
	kBytes
	kStrs
	kMapSS
	kMapSL
)

// entry is one value obtained from the context: the value itself (same backing memory as what
// the framework handed out) and the rendering of its content at capture time.
type entry struct {
	Acc, Key string
	// Form: how the accessor was called when not in its plain form (a default given, the key spelled in
	// another case); Site: where in the handler chain the value was obtained when not in the route's
	// (last) handler (bare application, sites.go). Both qualify the signature (" form=", " site=").
	Form, Site string
	kind       kind
	s          string
	b          []byte
	ss         []string
	mss        map[string]string
	msl        map[string][]string
	cp         string
	step       int
	dead       bool // already reported
}

// Canonical, unambiguous renderings (length-prefixed, no escaping: cheap enough to recompute at
// every check point).
func appendLP(b []byte, s string) []byte {
	b = strconv.AppendInt(b, int64(len(s)), 10)
	b = append(b, ':')
	return append(b, s...)
}

func renderStrs(ss []string) string {
	b := make([]byte, 0, 64)
	b = append(b, '[')
	for _, s := range ss {
		b = appendLP(b, s)
		b = append(b, ',')
	}
	b = append(b, ']')
	return string(b)
}

func renderMapSS(m map[string]string) string {
	rows := make([]string, 0, len(m))
	for k, v := range m {
		rows = append(rows, string(append(appendLP(appendLP(make([]byte, 0, len(k)+len(v)+12), k), v), ';')))
	}
	sort.Strings(rows)
	return "{" + strings.Join(rows, "") + "}"
}

func renderMapSL(m map[string][]string) string {
	rows := make([]string, 0, len(m))
	for k, v := range m {
		b := appendLP(make([]byte, 0, 64), k)
		b = append(b, '[')
		for _, s := range v {
			b = appendLP(b, s)
			b = append(b, ',')
		}
		b = append(b, ']', ';')
		rows = append(rows, string(b))
	}
	sort.Strings(rows)
	return "{" + strings.Join(rows, "") + "}"
}

func newStr(acc, key, v string, step int) *entry {
	return &entry{Acc: acc, Key: key, kind: kStr, s: v, cp: strings.Clone(v), step: step}
}
func newBytes(acc, key string, v []byte, step int) *entry {
	return &entry{Acc: acc, Key: key, kind: kBytes, b: v, cp: string(v), step: step}
}
func newStrs(acc, key string, v []string, step int) *entry {
	return &entry{Acc: acc, Key: key, kind: kStrs, ss: v, cp: renderStrs(v), step: step}
}
func newMapSS(acc, key string, v map[string]string, step int) *entry {
	return &entry{Acc: acc, Key: key, kind: kMapSS, mss: v, cp: renderMapSS(v), step: step}
}
func newMapSL(acc, key string, v map[string][]string, step int) *entry {
	return &entry{Acc: acc, Key: key, kind: kMapSL, msl: v, cp: renderMapSL(v), step: step}
}

// now re-reads the retained value.
func (e *entry) now() string {
	switch e.kind {
	case kStr:
		return e.s
	case kBytes:
		return string(e.b)
	case kStrs:
		return renderStrs(e.ss)
	case kMapSS:
		return renderMapSS(e.mss)
	default:
		return renderMapSL(e.msl)
	}
}

func (e *entry) intact() bool {
	switch e.kind {
	case kStr:
		return e.s == e.cp
	case kBytes:
		return string(e.b) == e.cp
	}
	return e.now() == e.cp
}

// id names a captured value inside a request: [site@]accessor[(form)]|key.
func (e *entry) id() string {
	id := e.Acc
	if e.Form != "" {
		id += "(" + e.Form + ")"
	}
	if e.Site != "" {
		id = e.Site + "@" + id
	}
	return id + "|" + e.Key
}

// parseID is the inverse of id (without the key).
func parseID(id string) (site, acc, form string) {
	acc = id[:strings.IndexByte(id, '|')]
	if i := strings.IndexByte(acc, '@'); i >= 0 {
		site, acc = acc[:i], acc[i+1:]
	}
	if i := strings.IndexByte(acc, '('); i >= 0 && strings.HasSuffix(acc, ")") {
		acc, form = acc[:i], acc[i+1:len(acc)-1]
	}
	return site, acc, form
}

// qualSF: the signature qualifiers of a value's capture site and call form.
func qualSF(site, form string) string {
	q := ""
	if site != "" {
		q += " site=" + site
	}
	if form != "" {
		q += " form=" + form
	}
	return q
}

// sigAcc is the accessor name used in signatures: the Req() twins are pure delegations
// (req.go holds no logic), so they share the signature of the method they forward to.
func sigAcc(acc string) string { return strings.TrimPrefix(acc, "Req.") }

// component names the part of the request an accessor's value is cut from; the clobber
// classification compares the byte length of that part in the two requests involved.
func component(acc string) string {
	a := sigAcc(acc)
	switch {
	case strings.HasPrefix(a, "Params"), a == "Path", a == "Bind.URI":
		return "path"
	case a == "OriginalURL":
		return "uri"
	case strings.HasPrefix(a, "Quer"), a == "Bind.Query":
		return "query"
	case a == "Protocol":
		return "proto"
	case a == "Host", a == "Hostname", a == "BaseURL", a == "Subdomains":
		return "host"
	case a == "Cookies", a == "Bind.Cookie", strings.HasPrefix(a, "Redirect."):
		return "cookie"
	case a == "Get", a == "GetReqHeader[string]", a == "GetReqHeader[[]byte]", a == "GetReqHeaders", a == "Bind.Header", a == "Scheme", a == "Range.Type", a == "IP", a == "IPs":
		return "header"
	case a == "Body", a == "BodyRaw", a == "FormValue", strings.HasPrefix(a, "MultipartForm"), a == "FormFile.Filename",
		a == "Bind.Form", a == "Bind.JSON", a == "Bind.XML", a == "Bind.CBOR", a == "Bind.Body":
		return "body"
	case a == "GetRespHeader", a == "GetRespHeaders", a == "Bind.RespHeader":
		return "response"
	}
	return "other" // Method, Port, String, Route.*
}

func clip(s string) string {
	if len(s) > 160 {
		return s[:160] + "…(" + strconv.Itoa(len(s)) + " bytes)"
	}
	return s
}
