package main

import (
	"fmt"
	"io/fs"
	"sort"
	"strconv"
	"strings"
	"testing/fstest"

	"github.com/gofiber/fiber/v3"
)

// customCtx is the documented way to plug a custom context in (value embedding).
type customCtx struct{ fiber.DefaultCtx }

// fsPtr makes the file system comparable (SendFile compares configurations with ==).
type fsPtr struct{ m fstest.MapFS }

func (f *fsPtr) Open(name string) (fs.File, error) { return f.m.Open(name) }

var sendFS = &fsPtr{fstest.MapFS{
	"files/hello-from-the-harness-file-system.txt": &fstest.MapFile{Data: []byte("hello from the harness file system, a body that is longer than most request bodies of the alphabet")},
}}

// binding targets ----------------------------------------------------------

type bQuery struct {
	Q   string   `query:"q"`
	Tag []string `query:"tag"`
	N   int      `query:"n"`
	B   []byte   `query:"b"`
}
type bForm struct {
	Name string   `form:"name"`
	Tags []string `form:"tags"`
	B    []byte   `form:"b"`
	Note string   `form:"note"`
}
type bHeader struct {
	XCustom string   `header:"X-Custom"`
	Host    string   `header:"Host"`
	Accept  []string `header:"Accept"`
}
type bRespHeader struct {
	Echo string   `respHeader:"X-Echo"`
	Many []string `respHeader:"X-Echo-List"`
}
type bCookie struct {
	Sid   string   `cookie:"sid"`
	Theme string   `cookie:"theme"`
	L     []string `cookie:"l"`
}
type bURI struct {
	ID   string `uri:"id"`
	Name string `uri:"name"`
	A    string `uri:"a"`
	Star string `uri:"*1"`
	Plus string `uri:"+1"`
}

// capture calls every value-returning accessor and records each result BY HEADER (the very
// string/slice/map the framework returned) next to a deep copy rendered at this moment.
// With keep == false the accessors are only called (second pass of oracle 2).
func (s *session) capture(c fiber.Ctx, step int, keep bool) []*entry {
	var out []*entry
	if keep {
		out = make([]*entry, 0, 512)
	}
	// an empty string / slice has no bytes that could change: it is not kept (the differential
	// oracle sees an id that is missing on one side as a difference, the anchors read it as "")
	S := func(acc, key, v string) {
		if keep && v != "" {
			out = append(out, newStr(acc, key, v, step))
		}
	}
	B := func(acc, key string, v []byte) {
		if keep && len(v) > 0 {
			out = append(out, newBytes(acc, key, v, step))
		}
	}
	SS := func(acc, key string, v []string) {
		if keep {
			out = append(out, newStrs(acc, key, v, step))
		}
	}
	// F: an accessor called in another FORM than the plain one (a default value given although
	// the value is present, the key spelled in another case). What comes back when the default is
	// taken is the caller's own string: nothing of the framework's, not kept.
	F := func(acc, form, key, v, dflt string) {
		if keep && v != "" && v != dflt {
			e := newStr(acc, key, v, step)
			e.Form = form
			out = append(out, e)
		}
	}
	FB := func(acc, form, key string, v []byte, dflt string) {
		if keep && len(v) > 0 && string(v) != dflt {
			e := newBytes(acc, key, v, step)
			e.Form = form
			out = append(out, e)
		}
	}
	MSS := func(acc, key string, v map[string]string) {
		if keep {
			out = append(out, newMapSS(acc, key, v, step))
		}
	}
	MSL := func(acc, key string, v map[string][]string) {
		if keep {
			out = append(out, newMapSL(acc, key, v, step))
		}
	}

	// a response header derived from the request, so that the response-side getters have something to return
	c.Set("X-Echo", "echo-"+c.Get("X-Custom"))
	c.Set("X-Echo-List", "e1-"+c.Query("q")+",e2")

	for _, k := range paramKeys {
		S("Params", k, c.Params(k))
		S("Params[string]", k, fiber.Params[string](c, k))
		B("Params[[]byte]", k, fiber.Params[[]byte](c, k))
		F("Params", "default-given", k, c.Params(k, dfltStr), dfltStr)
		F("Params[string]", "default-given", k, fiber.Params[string](c, k, dfltStr), dfltStr)
		if u := otherCase[k]; u != "" {
			F("Params", "other-case-key", k, c.Params(u), "")
		}
	}
	S("Path", "", c.Path())
	S("OriginalURL", "", c.OriginalURL())
	S("Protocol", "", c.Protocol())
	S("Scheme", "", c.Scheme())
	S("Method", "", c.Method())
	for _, k := range queryKeys {
		S("Query", k, c.Query(k))
		S("Query[string]", k, fiber.Query[string](c, k))
		B("Query[[]byte]", k, fiber.Query[[]byte](c, k))
		F("Query", "default-given", k, c.Query(k, dfltStr), dfltStr)
		FB("Query[[]byte]", "default-given", k, fiber.Query[[]byte](c, k, dfltBytes), dfltStr)
	}
	MSS("Queries", "", c.Queries())
	for _, k := range headerKeys {
		S("Get", k, c.Get(k))
		S("GetReqHeader[string]", k, fiber.GetReqHeader[string](c, k))
		B("GetReqHeader[[]byte]", k, fiber.GetReqHeader[[]byte](c, k))
		F("Get", "default-given", k, c.Get(k, dfltStr), dfltStr)
		FB("GetReqHeader[[]byte]", "default-given", k, fiber.GetReqHeader[[]byte](c, k, dfltBytes), dfltStr)
	}
	MSL("GetReqHeaders", "", c.GetReqHeaders())
	for _, k := range cookieKeys {
		S("Cookies", k, c.Cookies(k))
		F("Cookies", "default-given", k, c.Cookies(k, dfltStr), dfltStr)
	}
	S("Host", "", c.Host())
	S("Hostname", "", c.Hostname())
	S("BaseURL", "", c.BaseURL())
	S("IP", "", c.IP())
	SS("IPs", "", c.IPs())
	SS("Subdomains", "", c.Subdomains())
	SS("Subdomains", "offset1", c.Subdomains(1))
	S("Port", "", c.Port())
	S("String", "", c.String())
	B("Body", "", c.Body())
	B("BodyRaw", "", c.BodyRaw())
	for _, k := range formKeys {
		S("FormValue", k, c.FormValue(k))
		F("FormValue", "default-given", k, c.FormValue(k, dfltStr), dfltStr)
	}
	if form, err := c.MultipartForm(); err == nil && form != nil {
		for _, k := range sortedKeys(form.Value) {
			SS("MultipartForm.Value", k, form.Value[k])
		}
		for _, k := range sortedKeys(form.File) {
			for i, fh := range form.File[k] {
				S("MultipartForm.File", k+"/"+strconv.Itoa(i)+"/Filename", fh.Filename)
				MSL("MultipartForm.File", k+"/"+strconv.Itoa(i)+"/Header", fh.Header)
			}
		}
	}
	if fh, err := c.FormFile("doc"); err == nil && fh != nil {
		S("FormFile.Filename", "doc", fh.Filename)
	}
	if rg, err := c.Range(1000); err == nil {
		S("Range.Type", "", rg.Type)
	}
	S("Route.Path", "", c.Route().Path)
	SS("Route.Params", "", c.Route().Params)
	if u, err := c.GetRouteURL("named", fiber.Map{"id": c.Params("id"), "name": c.Query("q")}); err == nil {
		S("GetRouteURL", "named", u) // built from the route and from request values
	}
	S("GetRespHeader", "X-Echo", c.GetRespHeader("X-Echo"))
	F("GetRespHeader", "default-given", "X-Echo", c.GetRespHeader("X-Echo", dfltStr), dfltStr)
	MSL("GetRespHeaders", "", c.GetRespHeaders())

	// flash messages (present when the request carries a fiber_flash cookie)
	rd := c.Redirect()
	for i, m := range rd.Messages() {
		S("Redirect.Messages", strconv.Itoa(i)+".Key", m.Key)
		S("Redirect.Messages", strconv.Itoa(i)+".Value", m.Value)
	}
	for i, m := range rd.OldInputs() {
		S("Redirect.OldInputs", strconv.Itoa(i)+".Key", m.Key)
		S("Redirect.OldInputs", strconv.Itoa(i)+".Value", m.Value)
	}
	if m := rd.Message("status"); m.Key != "" {
		S("Redirect.Message", "status.Value", m.Value)
	}
	if m := rd.OldInput("email"); m.Key != "" {
		S("Redirect.OldInput", "email.Value", m.Value)
	}

	// binding: structs with string / []string / []byte fields and the two map shapes
	bd := c.Bind()
	{
		var v bQuery
		_ = bd.Query(&v)
		S("Bind.Query", "Q", v.Q)
		SS("Bind.Query", "Tag", v.Tag)
		B("Bind.Query", "B", v.B)
		m1, m2 := map[string]string{}, map[string][]string{}
		_ = bd.Query(m1)
		_ = bd.Query(m2)
		MSS("Bind.Query", "map", m1)
		MSL("Bind.Query", "mapslice", m2)
	}
	{
		var v bForm
		_ = bd.Form(&v)
		S("Bind.Form", "Name", v.Name)
		S("Bind.Form", "Note", v.Note)
		SS("Bind.Form", "Tags", v.Tags)
		B("Bind.Form", "B", v.B)
		m1, m2 := map[string]string{}, map[string][]string{}
		_ = bd.Form(m1)
		_ = bd.Form(m2)
		MSS("Bind.Form", "map", m1)
		MSL("Bind.Form", "mapslice", m2)
	}
	{
		var v bHeader
		_ = bd.Header(&v)
		S("Bind.Header", "XCustom", v.XCustom)
		S("Bind.Header", "Host", v.Host)
		SS("Bind.Header", "Accept", v.Accept)
		m1, m2 := map[string]string{}, map[string][]string{}
		_ = bd.Header(m1)
		_ = bd.Header(m2)
		MSS("Bind.Header", "map", m1)
		MSL("Bind.Header", "mapslice", m2)
	}
	{
		var v bRespHeader
		_ = bd.RespHeader(&v)
		S("Bind.RespHeader", "Echo", v.Echo)
		SS("Bind.RespHeader", "Many", v.Many)
		m2 := map[string][]string{}
		_ = bd.RespHeader(m2)
		MSL("Bind.RespHeader", "mapslice", m2)
	}
	{
		var v bCookie
		_ = bd.Cookie(&v)
		S("Bind.Cookie", "Sid", v.Sid)
		S("Bind.Cookie", "Theme", v.Theme)
		SS("Bind.Cookie", "L", v.L)
		m1, m2 := map[string]string{}, map[string][]string{}
		_ = bd.Cookie(m1)
		_ = bd.Cookie(m2)
		MSS("Bind.Cookie", "map", m1)
		MSL("Bind.Cookie", "mapslice", m2)
	}
	{
		var v bURI
		_ = bd.URI(&v)
		S("Bind.URI", "ID", v.ID)
		S("Bind.URI", "Name", v.Name)
		S("Bind.URI", "A", v.A)
		S("Bind.URI", "Star", v.Star)
		S("Bind.URI", "Plus", v.Plus)
		m1 := map[string]string{}
		_ = bd.URI(m1)
		MSS("Bind.URI", "map", m1)
	}
	{
		var j, x, cb, any bodyDoc
		_ = bd.JSON(&j)
		S("Bind.JSON", "Name", j.Name)
		SS("Bind.JSON", "Tags", j.Tags)
		B("Bind.JSON", "Bytes", j.Bytes)
		_ = bd.XML(&x)
		S("Bind.XML", "Name", x.Name)
		SS("Bind.XML", "Tags", x.Tags)
		_ = bd.CBOR(&cb)
		S("Bind.CBOR", "Name", cb.Name)
		SS("Bind.CBOR", "Tags", cb.Tags)
		B("Bind.CBOR", "Bytes", cb.Bytes)
		_ = bd.Body(&any)
		S("Bind.Body", "Name", any.Name)
		SS("Bind.Body", "Tags", any.Tags)
		B("Bind.Body", "Bytes", any.Bytes)
	}

	// the Req() twins (with the documented value-embedding custom context Req() points at a
	// discarded copy of the context and dereferences nil: that is C07's finding, not exercised here)
	if s.cfg.Ctx == "default" {
		r := c.Req()
		for _, k := range paramKeys {
			S("Req.Params", k, r.Params(k))
		}
		S("Req.Path", "", r.Path())
		S("Req.OriginalURL", "", r.OriginalURL())
		S("Req.Protocol", "", r.Protocol())
		for _, k := range queryKeys {
			S("Req.Query", k, r.Query(k))
		}
		MSS("Req.Queries", "", r.Queries())
		for _, k := range headerKeys {
			S("Req.Get", k, r.Get(k))
		}
		for _, k := range cookieKeys {
			S("Req.Cookies", k, r.Cookies(k))
		}
		S("Req.Host", "", r.Host())
		S("Req.Hostname", "", r.Hostname())
		S("Req.BaseURL", "", r.BaseURL())
		S("Req.IP", "", r.IP())
		SS("Req.IPs", "", r.IPs())
		SS("Req.Subdomains", "", r.Subdomains())
		S("Req.Port", "", r.Port())
		S("Req.Method", "", r.Method())
		B("Req.Body", "", r.Body())
		B("Req.BodyRaw", "", r.BodyRaw())
		for _, k := range formKeys {
			S("Req.FormValue", k, r.FormValue(k))
		}
		if rg, err := r.Range(1000); err == nil {
			S("Req.Range.Type", "", rg.Type)
		}
		S("Req.Route.Path", "", r.Route().Path)
	}
	return out
}

var (
	paramKeys  = []string{"id", "name", "a", "*", "+", "*1", "+1", "*2", "n", "s", "from", "to", "file", "ext"}
	queryKeys  = []string{"q", "tag", "tag[]", "n", "src", "extra"}
	headerKeys = []string{"Host", "X-Custom", "Cookie", "Referer", "Accept", "Content-Type", "Content-Encoding", "X-Forwarded-For", "X-Forwarded-Host", "Range", "Connection", "Accept-Language", "x-custom"}
	cookieKeys = []string{"sid", "theme", "l", "other", "fiber_flash"}
	formKeys   = []string{"name", "tags", "tags[]", "note", "b", "q"}
)

// call forms: the default handed to the accessors, and the parameter names in another case
// (Params compares names case-insensitively unless CaseSensitive is set).
const dfltStr = "harness-default-value"

var (
	dfltBytes = []byte(dfltStr)
	otherCase = map[string]string{}
)

func init() {
	for _, k := range paramKeys {
		if u := strings.ToUpper(k); u != k {
			otherCase[k] = u
		}
	}
}

func sortedKeys[V any](m map[string]V) []string {
	ks := make([]string, 0, len(m))
	for k := range m {
		ks = append(ks, strings.Clone(k))
	}
	sort.Strings(ks)
	return ks
}

// readOnly calls the accessors that return no string (plus every value accessor once more):
// "all other READ accessors" of the second oracle.
func (s *session) readOnly(c fiber.Ctx, step int) {
	_ = c.Accepts("html", "json", "text/yaml")
	_ = c.AcceptsCharsets("utf-8", "iso-8859-1")
	_ = c.AcceptsEncodings("gzip", "br")
	_ = c.AcceptsLanguages("en", "de")
	_ = c.Is("json")
	_ = c.Is("html")
	_ = c.Fresh()
	_ = c.Stale()
	_ = c.XHR()
	_ = c.Secure()
	_ = c.IsFromLocal()
	_ = c.IsProxyTrusted()
	_ = c.Context()
	_ = c.Locals("k")
	_ = c.App()
	_ = c.ClientHelloInfo()
	_, _ = c.GetRouteURL("named", fiber.Map{"id": c.Params("id"), "name": c.Query("q")})
	_ = s.capture(c, step, false)
	if s.cfg.Ctx == "default" {
		r := c.Req()
		_ = r.Accepts("html")
		_ = r.AcceptsCharsets("utf-8")
		_ = r.AcceptsEncodings("gzip")
		_ = r.AcceptsLanguages("en")
		_ = r.Is("json")
		_ = r.Fresh()
		_ = r.Stale()
		_ = r.XHR()
		_ = r.Secure()
		_ = r.IsFromLocal()
		_ = r.IsProxyTrusted()
	}
}

// respond calls the response helpers (never a request-mutating call), feeding them values taken
// from the request as real handlers do.
func (s *session) respond(c fiber.Ctx) {
	id, q, custom := c.Params("id", "none"), c.Query("q", "nq"), c.Get("X-Custom")
	c.Status(fiber.StatusAccepted)
	c.Set("X-One", custom)
	c.Append("X-One", q, id)
	c.Vary("Origin", "Accept")
	c.Type("json", "utf-8")
	c.Cookie(&fiber.Cookie{Name: "resp", Value: c.Cookies("sid", "nosid"), Path: c.Path()})
	c.ClearCookie("theme")
	c.ClearCookie()
	c.Links("http://"+c.Host()+"/next", "next", "http://"+c.Host()+"/last", "last")
	c.Location(c.OriginalURL())
	c.Attachment(id + ".txt")
	_ = c.ViewBind(fiber.Map{"q": q})
	_ = c.Locals("k", custom)
	_ = c.JSON(fiber.Map{"id": id, "q": q, "body": string(c.Body())})
	_ = c.JSONP(fiber.Map{"id": id}, "cb")
	_ = c.XML(bodyDoc{Name: id, Tags: []string{q}})
	_ = c.CBOR(bodyDoc{Name: id, Tags: []string{q}})
	_ = c.Format(fiber.ResFmt{MediaType: "text/plain", Handler: func(c fiber.Ctx) error { return c.SendString(c.Path()) }},
		fiber.ResFmt{MediaType: "application/json", Handler: func(c fiber.Ctx) error { return c.JSON(c.Queries()) }},
		fiber.ResFmt{MediaType: "default", Handler: func(c fiber.Ctx) error { return c.SendString("dflt") }})
	_ = c.AutoFormat(c.BodyRaw())
	_ = c.AutoFormat(c.Path())
	_ = c.SendString("hello " + id)
	_ = c.Send(c.BodyRaw())
	_, _ = c.Write([]byte(q))
	_, _ = c.WriteString(custom)
	_, _ = c.Writef("%s-%s", id, q)
	_ = c.SendStatus(fiber.StatusOK)
	_ = c.Redirect().With("status", "saved:"+q, 1).With("warn", custom, 2).WithInput().To("/s?from=" + id)
	_ = c.Redirect().Status(fiber.StatusSeeOther).Back("/fallback")
	_ = c.Redirect().Route("named", fiber.RedirectConfig{Params: fiber.Map{"id": id}, Queries: map[string]string{"q": q}})
	if s.cfg.Ctx == "default" {
		rs := c.Res()
		rs.Set("X-Two", custom)
		rs.Append("X-Two", q)
		rs.Vary("X-Custom")
		rs.Cookie(&fiber.Cookie{Name: "resp2", Value: id})
		rs.Location(c.Path())
		_ = rs.JSON(fiber.Map{"id": id})
		_ = rs.SendString(fmt.Sprintf("%s/%s", id, q))
	}
}

// sendFile serves a file through fasthttp's FS handler, which temporarily rewrites the request URI.
func (s *session) sendFile(c fiber.Ctx) {
	_ = c.SendFile("files/hello-from-the-harness-file-system.txt", fiber.SendFile{FS: sendFS})
	c.Status(fiber.StatusOK)
}
