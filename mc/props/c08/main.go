// C08 — each handler error reaches exactly one, deterministic, correctly scoped handler.
//
// Bounded exhaustive product: mount structures (<=3 mounts over a prefix alphabet, one level of
// nesting, each sub-app with/without its own ErrorHandler, root with default/custom handler,
// with/without a root catch-all route, nested mount done before/after the parent is mounted,
// DefaultCtx funnel / CustomCtx funnel)
// + DEEP mount trees: a chain root -> m0 -> m1 -> m2 (two nesting levels below a mount) over the small
// alphabet deepAlpha (thorough: plus one more mount hanging off the root, m0 or m1), built top-down
// (every parent mounted before its child: the descendants are registered by the start-up pass
// appendSubAppLists) and bottom-up (mount() copies the full paths eagerly; thorough: every order of
// the Use calls of the chain)
// x request paths (incl. every "partial" prefix: the relative prefixes of a mount's ancestor chain
// with some ancestors dropped, e.g. /b/c and /a/c and /c for /a/b/c) x URL forms x error sources
// x WHAT THE SELECTED ERROR HANDLER DOES (answers; or FAILS: with a plain error, with the very error it
// was given, with a *fiber.Error of another 4xx / 5xx code, with an error wrapping the given one or a
// *fiber.Error, before or after having written a response) x EVERY iteration order of the map range in
// App.ErrorHandler (owned through the overlay: verifrt.MapOrder + an odometer-driven chooser)
// (all n! orders while a request consults <=3 owned choices, i.e. <=4 appList entries; beyond that
// every order with <=2 non-default picks) x <=1 non-default choice in the map ranges of mount.go.
//
// Added by the clause-coverage audit (AUDIT.md):
//   - error sources 7..10 (sub-app middleware, error replaced on the way back, shared 5xx value, wrapped
//     *fiber.Error); every sub-app has a pass-through middleware and a two-handler GET /x route;
//   - family "mount-spelling": the same mounts written as Use("/p/"), Use("p"), Use(sub), Group("/p").Use("/"),
//     Group("/").Use("/p"), Group("/p").Use(sub); mounts at "/"; one app object mounted twice
//     (App.mount's "" -> "/" branch, Group.mount, the trailing-slash arm of the boundary test);
//   - family "path-spelling-x-routing-config": trailing slashes, empty segments, other letter case,
//     percent-encoded letters / slashes in the request path x CaseSensitive / StrictRouting / UnescapePath.
//
// The chooser is process-global, so the product is sharded over worker PROCESSES
// (core.SpawnWorkers), each strictly sequential.
package main

import (
	"errors"
	"fmt"
	"os"
	"runtime/debug"
	"runtime/pprof"
	"sort"
	"strconv"
	"strings"
	"time"

	"github.com/gofiber/fiber/v3"
	"github.com/gofiber/fiber/v3/verifrt"
	"github.com/valyala/fasthttp"

	"verifmc/core"
	"verifmc/fx"
)

// ---------------------------------------------------------------------------
// alphabet

var prefixes = []string{"/api", "/api-v2", "/api/v1", "/ap", "/a"}

// relative prefixes of nested mounts: the same alphabet plus "/v1" (so that /api + /v1 collides with a direct /api/v1 mount)
var nestedRel = []string{"/api", "/api-v2", "/api/v1", "/ap", "/a", "/v1"}

// prefixes of deep mount trees (root-level and relative alike): /a is a string prefix of /api, /v1 is unrelated
var deepAlpha = []string{"/a", "/api", "/v1"}

// maxFullOrderChoices: a request that consults more owned map-range choices than this (appList with
// more than 4 entries) is explored under every order with <= maxOrderDeviations non-default picks only.
const (
	maxFullOrderChoices = 3
	maxOrderDeviations  = 2
)

const (
	srcInner  = iota // route handler of the innermost matching app writes a partial response, then returns *fiber.Error 422
	srcRootMW        // root middleware registered before every mount returns *fiber.Error 403
	srcFW404         // every handler calls Next: the framework's own 404 comes back through the chain
	srcFW405         // POST on GET-only routes: the framework's own 405
	srcTeapot        // route handler returns *fiber.Error with code 418
	srcPlain         // route handler returns errors.New(...)
	// chain positions / error values added by the audit (explored like the failing-handler variants: see scen)
	srcSubMW    // the middleware of the sub-app (sub.Use(mw), registered before its routes) returns *fiber.Error 401; a route reached without passing such a middleware raises the same
	srcReplaced // root middleware calls Next and REPLACES whatever error comes back (route's 418, framework 404) by a fresh *fiber.Error 410
	srcFiber503 // route handler returns the package-level value fiber.ErrServiceUnavailable (5xx, message = status text)
	srcWrapped  // route handler returns fmt.Errorf("...: %w", fiber.NewError(409, ...)): the documented default handler maps it with errors.As
	nSrc
)

// nOldSrc: the sources explored under every iteration order in every program.
const nOldSrc = srcPlain + 1

var srcNames = [nSrc]string{"inner-handler", "root-middleware", "framework-404", "framework-405", "fiber-error-418", "plain-error",
	"sub-app-middleware", "error-replaced-by-root-middleware", "fiber-error-503-shared-value", "wrapped-fiber-error-409"}

// what every injected error handler does with the error it receives
const (
	behOK                 = iota // writes its response, returns nil
	behPlainAfterWrite           // writes its response, then returns errors.New(...)
	behPlain                     // returns errors.New(...) without writing anything
	behPassBack                  // "not mine": returns the very error it was given
	behPassBackAfterWrite        // writes its response, then returns the very error it was given
	behFiber4xx                  // returns a fresh *fiber.Error with a 4xx code no source uses (451)
	behFiber5xx                  // returns fiber.ErrBadGateway (502)
	behWrapGiven                 // returns fmt.Errorf("...: %w", given)
	behWrapFiber                 // returns fmt.Errorf("...: %w", fiber.ErrServiceUnavailable)
	nBeh
)

var behNames = [nBeh]string{"answers", "plain-error-after-writing", "plain-error", "the-error-it-was-given", "the-error-it-was-given-after-writing",
	"fiber-error-451", "fiber-error-502", "error-wrapping-the-given-one", "error-wrapping-fiber-error-503"}

// scen: one error source x one behaviour of the injected error handlers.
// full: explored like the answering handler (every iteration order in every program, mount.go deviations);
// the other failing variants run under the default mount.go order, under every ErrorHandler order in programs
// with <=2 mounts and under the default order in larger ones (what a handler does with the error is
// independent of how it was selected; exactly-once delivery is judged in every evaluation all the same).
type scen struct {
	src, beh int
	full     bool
}

var scens = func() []scen {
	var out []scen
	for s := 0; s < nOldSrc; s++ {
		out = append(out, scen{s, behOK, true})
	}
	out = append(out, scen{srcTeapot, behPlainAfterWrite, true})
	for b := behPlainAfterWrite; b < nBeh; b++ {
		for s := 0; s < nOldSrc; s++ {
			if s == srcTeapot && b == behPlainAfterWrite {
				continue
			}
			out = append(out, scen{s, b, false})
		}
	}
	// the added sources: answering handlers (and default handlers: these run in programs without any
	// injected handler too), plus the two failing behaviours whose result depends on the error given
	for s := nOldSrc; s < nSrc; s++ {
		out = append(out, scen{s, behOK, false}, scen{s, behPassBack, false}, scen{s, behWrapGiven, false})
	}
	return out
}()

// nFullScens: scens[:nFullScens] are the fully explored ones.
const nFullScens = nOldSrc + 1

func (sc scen) name() string { return srcNames[sc.src] + " / handler " + behNames[sc.beh] }

const (
	formOrigin = iota // GET /api/x
	formQuery         // GET /api/x?next=/api-v2/x
	formAbs           // GET http://example.com/api/x
	nForm
)

var formNames = [nForm]string{"origin", "query", "absolute-uri"}

type mount struct {
	Parent int    `json:"parent"` // -1 = mounted into the root app, else index of the parent mount (which may itself be nested)
	Rel    string `json:"prefix"` // prefix of the mount relative to its parent ("/" = mounted at the parent's root)
	Own    bool   `json:"own_error_handler"`
	Full   string `json:"full_prefix"`
	Via    int    `json:"-"`                           // how the mounting call is SPELLED: index into spellings(Rel); every spelling denotes the same mount
	Spell  string `json:"spelled,omitempty"`           // class of the spelling when not the plain Use(prefix, sub)
	Again  int    `json:"same_app_as_mount,omitempty"` // 1+index of an earlier mount whose *fiber.App object is mounted once more here (0: an app of its own)
}

// spell: one way of writing a mounting call. All spellings of a mount register the sub-app under
// parent prefix + Rel: [parent.Group(g).]Use(m, sub), the path g+m cut at any segment boundary of Rel, the
// group prefix and the mount prefix each with or without a trailing slash, the mount prefix with or without its
// leading slash, an empty piece written as "/", "" or (mount prefix) left out.
type spell struct {
	group    bool
	g, m     string // group prefix / mount prefix as written
	noPrefix bool   // Use(sub): no prefix argument at all
	class    string // name of the spelling without the concrete prefix (signature qualifier)
}

const viaUse = 0 // spellings(rel)[0]: parent.Use(rel, sub)

const plainSpelling = "Use(prefix,sub)"

// spellings enumerates every spelling of a mount with relative prefix rel; [0] is the plain one.
var spellCache = map[string][]spell{}

func spellings(rel string) []spell {
	if c, ok := spellCache[rel]; ok {
		return c
	}
	c := spellings0(rel)
	spellCache[rel] = c
	return c
}

func spellings0(rel string) []spell {
	var segs []string // "/api/v1" -> "/api", "/v1"; "/" -> none
	if rel != "/" {
		for _, p := range strings.Split(rel[1:], "/") {
			segs = append(segs, "/"+p)
		}
	}
	n := len(segs)
	// spellings of the mount prefix for a tail (what it is called: "prefix" when it is the whole of rel)
	tails := func(tail, what string) []spell {
		if tail == "" {
			return []spell{{m: "/", class: "slash"}, {m: "", class: "empty"}, {noPrefix: true, class: "none"}}
		}
		return []spell{{m: tail, class: what}, {m: tail + "/", class: what + "+slash"}, {m: tail[1:], class: what + "-without-leading-slash"}}
	}
	var out []spell
	for _, t := range tails(strings.Join(segs, ""), "prefix") {
		cl := "Use(" + t.class + ",sub)"
		if t.noPrefix {
			cl = "Use(sub)"
		}
		out = append(out, spell{m: t.m, noPrefix: t.noPrefix, class: cl})
	}
	for k := 0; k <= n; k++ {
		head, tail := strings.Join(segs[:k], ""), strings.Join(segs[k:], "")
		var gs []spell
		switch {
		case k == 0:
			gs = []spell{{g: "/", class: "slash"}, {g: "", class: "empty"}}
		case k == n:
			gs = []spell{{g: head, class: "prefix"}, {g: head + "/", class: "prefix+slash"}}
		default:
			gs = []spell{{g: head, class: "head"}, {g: head + "/", class: "head+slash"}}
		}
		what := "tail"
		if k == 0 {
			what = "prefix"
		}
		for _, g := range gs {
			for _, t := range tails(tail, what) {
				cl := "Group(" + g.class + ").Use(" + t.class + ",sub)"
				if t.noPrefix {
					cl = "Group(" + g.class + ").Use(sub)"
				}
				out = append(out, spell{group: true, g: g.g, m: t.m, noPrefix: t.noPrefix, class: cl})
			}
		}
	}
	return out
}

// spellingIndex: index of the spelling of rel with the given class, -1 if rel has none.
func spellingIndex(rel, class string) int {
	for i, sp := range spellings(rel) {
		if sp.class == class {
			return i
		}
	}
	return -1
}

// spellingClasses: every class name, in a fixed order (first appearance over the prefixes of the family).
func spellingClasses() []string {
	var out []string
	seen := map[string]bool{}
	for _, rel := range append(append([]string{}, spellRoot...), nestedRel...) {
		for _, sp := range spellings(rel) {
			if !seen[sp.class] {
				seen[sp.class] = true
				out = append(out, sp.class)
			}
		}
	}
	return out
}

// spelled returns the Go text of the mounting call and performs it when parent != nil.
func spelled(parentName, subName string, rel string, via int, parent, sub *fiber.App) string {
	sp := spellings(rel)[via]
	q := strconv.Quote
	var r fiber.Router
	text := parentName
	if parent != nil {
		r = parent
	}
	if sp.group {
		text += ".Group(" + q(sp.g) + ")"
		if parent != nil {
			r = parent.Group(sp.g)
		}
	}
	if sp.noPrefix {
		if parent != nil {
			r.Use(sub)
		}
		return text + ".Use(" + subName + ")"
	}
	if parent != nil {
		r.Use(sp.m, sub)
	}
	return text + ".Use(" + q(sp.m) + ", " + subName + ")"
}

// mk builds a mount entry; joinPrefix gives the full prefix of a mount below a parent prefix.
func mk(parent int, rel string, own bool, parentFull string) mount {
	return mount{Parent: parent, Rel: rel, Own: own, Full: joinPrefix(parentFull, rel)}
}

func joinPrefix(parentFull, rel string) string {
	base := strings.TrimRight(parentFull, "/")
	if rel == "/" {
		if base == "" {
			return "/"
		}
		return base
	}
	return base + rel
}

// under: the path suffix below a full mount prefix ("/" + "/x" = "/x").
func under(full, suffix string) string { return strings.TrimRight(full, "/") + suffix }

// appID: the handler id of the application mounted by entry i (entries that mount one app object share it).
func (p *program) appID(i int) int {
	if a := p.Mounts[i].Again; a > 0 {
		return a
	}
	return i + 1
}

type program struct {
	Mounts    []mount `json:"mounts"`
	NestLate  bool    `json:"nested_mount_after_parent_mounted"`
	RootOwn   bool    `json:"root_has_custom_error_handler"`
	RootCatch bool    `json:"root_catch_all_route"`
	CustomCtx bool    `json:"custom_ctx_funnel"`        // app.NewCtxFunc(...): requests go through customRequestHandler/nextCustom
	Deep      bool    `json:"deep_tree,omitempty"`      // a mount two nesting levels below a root-level mount exists
	Order     []int   `json:"use_call_order,omitempty"` // explicit order of the Use calls (mount indices); nil: bottom-up / top-down per NestLate
	Family    int     `json:"-"`                        // famMain, famSpelling, famPathCfg
	Cfg       int     `json:"-"`                        // routing configuration of the root app (cfgCase | cfgStrict | cfgUnescape)
}

const (
	famMain     = iota // the product described at the top of this file
	famSpelling        // every spelling of the mounting calls, mounts at "/", one app object mounted twice
	famPathCfg         // request-path spellings x routing configuration of the root app
	nFam
)

var famNames = [nFam]string{"main", "mount-spelling", "path-spelling-x-routing-config"}

const (
	cfgCase = 1 << iota
	cfgStrict
	cfgUnescape
)

func cfgText(c int) string {
	var fs []string
	if c&cfgCase != 0 {
		fs = append(fs, "CaseSensitive: true")
	}
	if c&cfgStrict != 0 {
		fs = append(fs, "StrictRouting: true")
	}
	if c&cfgUnescape != 0 {
		fs = append(fs, "UnescapePath: true")
	}
	return strings.Join(fs, ", ")
}

type myCtx struct{ fiber.DefaultCtx }

func (p *program) text() string {
	var b strings.Builder
	var fs []string
	if p.RootOwn {
		fs = append(fs, "ErrorHandler: EH0")
	}
	if p.Cfg != 0 {
		fs = append(fs, cfgText(p.Cfg))
	}
	root := "fiber.New()"
	if len(fs) > 0 {
		root = "fiber.New(fiber.Config{" + strings.Join(fs, ", ") + "})"
	}
	fmt.Fprintf(&b, "app := %s; ", root)
	if p.CustomCtx {
		b.WriteString("app.NewCtxFunc(func(a *fiber.App) fiber.CustomCtx { return &myCtx{DefaultCtx: *fiber.NewDefaultCtx(a)} }); ")
	}
	b.WriteString("app.Use(rootMW); ")
	for i, m := range p.Mounts {
		if m.Again > 0 {
			continue
		}
		cfg := ""
		if m.Own {
			cfg = fmt.Sprintf("fiber.Config{ErrorHandler: EH%d}", i+1)
		}
		fmt.Fprintf(&b, "s%d := fiber.New(%s) [USE mw, GET /, GET /x (pass, h)]; ", i+1, cfg)
	}
	use := func(i int) {
		m := p.Mounts[i]
		parent := "app"
		if m.Parent >= 0 {
			parent = "s" + strconv.Itoa(p.appID(m.Parent))
		}
		b.WriteString(spelled(parent, "s"+strconv.Itoa(p.appID(i)), m.Rel, m.Via, nil, nil) + "; ")
	}
	for _, i := range p.mountOrder() {
		use(i)
	}
	if p.RootCatch {
		b.WriteString("app.Get(\"/*\", h0)")
	}
	return b.String()
}

// mountOrder is the order in which Use(prefix, sub) calls are made.
// NestLate (top-down): by depth, every parent is mounted before anything is mounted into it.
// otherwise (bottom-up): post-order, every sub-app is complete before it is mounted.
func (p *program) mountOrder() []int {
	if p.Order != nil {
		return p.Order
	}
	var out []int
	if p.NestLate {
		for d := 0; len(out) < len(p.Mounts); d++ {
			for i := range p.Mounts {
				if p.depth(i) == d {
					out = append(out, i)
				}
			}
		}
		return out
	}
	var post func(parent int)
	post = func(parent int) {
		for i, m := range p.Mounts {
			if m.Parent == parent {
				post(i)
				out = append(out, i)
			}
		}
	}
	post(-1)
	return out
}

func (p *program) orderKind() string {
	switch {
	case !hasNested(p.Mounts):
		return "flat"
	case p.Order != nil:
		return "mixed"
	case p.NestLate:
		return "top-down (parents mounted first; descendants registered by the start-up pass)"
	}
	return "bottom-up (sub-apps complete before being mounted)"
}

// depth of mount i below the root application (0 = mounted into the root).
func (p *program) depth(i int) int {
	d := 0
	for p.Mounts[i].Parent >= 0 {
		i = p.Mounts[i].Parent
		d++
	}
	return d
}

// chain returns the relative prefixes from the root down to mount i.
func (p *program) chain(i int) []string {
	var c []string
	for ; i >= 0; i = p.Mounts[i].Parent {
		if p.Mounts[i].Rel != "/" { // a mount at its parent's root adds nothing to the path
			c = append([]string{p.Mounts[i].Rel}, c...)
		}
	}
	return c
}

// partialPrefixes: the prefixes obtained from the ancestor chain of mount i by dropping at least one
// and not all of its elements (a sub-app registered under such a prefix lost part of its mount path).
func (p *program) partialPrefixes(i int) []string {
	c := p.chain(i)
	var out []string
	for mask := 1; mask < 1<<len(c)-1; mask++ {
		s := ""
		for k := range c {
			if mask&(1<<k) != 0 {
				s += c[k]
			}
		}
		out = append(out, s)
	}
	return out
}

func hasNested(ms []mount) bool {
	for _, m := range ms {
		if m.Parent >= 0 {
			return true
		}
	}
	return false
}

// structures enumerates every set of <= maxMounts mounts: root-level mounts with pairwise distinct
// prefixes, plus children (one level) of one root-level mount with pairwise distinct relative prefixes.
func structures(maxMounts int, prefixes []string) [][]mount {
	var out [][]mount
	owns := []bool{false, true}
	var recRoot func(start int, cur []mount)
	var addChildren func(cur []mount)
	addChildren = func(cur []mount) {
		// children of one parent only ("one level of nesting"): choose parent, then a set of children
		room := maxMounts - len(cur)
		if room <= 0 {
			return
		}
		nroot := len(cur)
		for parent := 0; parent < nroot; parent++ {
			var recChild func(start int, c []mount)
			recChild = func(start int, c []mount) {
				if len(c) > nroot {
					out = append(out, append([]mount(nil), c...))
				}
				if len(c) == maxMounts {
					return
				}
				for i := start; i < len(nestedRel); i++ {
					for _, o := range owns {
						recChild(i+1, append(c[:len(c):len(c)], mk(parent, nestedRel[i], o, c[parent].Full)))
					}
				}
			}
			recChild(0, cur)
		}
	}
	recRoot = func(start int, cur []mount) {
		out = append(out, append([]mount(nil), cur...))
		if len(cur) > 0 {
			addChildren(cur)
		}
		if len(cur) == maxMounts {
			return
		}
		for i := start; i < len(prefixes); i++ {
			for _, o := range owns {
				recRoot(i+1, append(cur[:len(cur):len(cur)], mk(-1, prefixes[i], o, "")))
			}
		}
	}
	recRoot(0, nil)
	return out
}

// deepStructures enumerates the mount trees with a chain root -> m0 -> m1 -> m2 over deepAlpha, plus
// (extra > 0) one more mount hanging off the root, m0 or m1 with a relative prefix its siblings do not use.
func deepStructures(extra int) [][]mount {
	var out [][]mount
	owns := []bool{false, true}
	for _, r0 := range deepAlpha {
		for _, r1 := range deepAlpha {
			for _, r2 := range deepAlpha {
				for own := 0; own < 8; own++ {
					ch := []mount{mk(-1, r0, own&1 != 0, ""), mk(0, r1, own&2 != 0, r0), mk(1, r2, own&4 != 0, r0+r1)}
					out = append(out, ch)
					if extra == 0 {
						continue
					}
					for parent := -1; parent <= 1; parent++ {
						base, sibling := "", ch[parent+1].Rel
						if parent >= 0 {
							base = ch[parent].Full
						}
						for _, rx := range deepAlpha {
							if rx == sibling {
								continue
							}
							for _, o := range owns {
								out = append(out, append(ch[:3:3], mk(parent, rx, o, base)))
							}
						}
					}
				}
			}
		}
	}
	return out
}

func permutations(n int) [][]int {
	var out [][]int
	var rec func(cur []int, used int)
	rec = func(cur []int, used int) {
		if len(cur) == n {
			out = append(out, append([]int(nil), cur...))
			return
		}
		for i := 0; i < n; i++ {
			if used&(1<<i) == 0 {
				rec(append(cur, i), used|1<<i)
			}
		}
	}
	rec(nil, 0)
	return out
}

func mainPrograms(maxMounts int, quick bool) []program {
	var out []program
	for _, ms := range structures(maxMounts, prefixes) {
		lates := []bool{false}
		if hasNested(ms) && !(quick && len(ms) >= 3) {
			lates = []bool{false, true} // quick: late nesting only for programs with <=2 mounts
		}
		for _, late := range lates {
			for _, rootOwn := range []bool{false, true} {
				for _, catch := range []bool{false, true} {
					out = append(out, program{Mounts: ms, NestLate: late, RootOwn: rootOwn, RootCatch: catch})
					if len(ms) <= 2 || (!quick && !hasNested(ms)) {
						out = append(out, program{Mounts: ms, NestLate: late, RootOwn: rootOwn, RootCatch: catch, CustomCtx: true})
					}
				}
			}
		}
	}
	// deep trees: both construction orders (thorough: every order of the chain's Use calls, and 4-mount trees)
	extra := 1
	if quick {
		extra = 0
	}
	for _, ms := range deepStructures(extra) {
		type ord struct {
			late  bool
			order []int
		}
		ords := []ord{{false, nil}, {true, nil}}
		if !quick && len(ms) == 3 {
			for _, pm := range permutations(3) {
				if !(pm[0] == 0 && pm[1] == 1) && !(pm[0] == 2 && pm[1] == 1) { // top-down and bottom-up are there already
					ords = append(ords, ord{false, pm})
				}
			}
		}
		for _, o := range ords {
			for _, rootOwn := range []bool{false, true} {
				for _, catch := range []bool{false, true} {
					out = append(out, program{Mounts: ms, NestLate: o.late, RootOwn: rootOwn, RootCatch: catch, Deep: true, Order: o.order})
					if !quick && len(ms) == 3 && o.order == nil {
						out = append(out, program{Mounts: ms, NestLate: o.late, RootOwn: rootOwn, RootCatch: catch, CustomCtx: true, Deep: true})
					}
				}
			}
		}
	}
	return out
}

// programs: all families (C08_ONLY_FAMILY=<family name>: development aid, runs one family).
func programs(maxMounts int, quick bool) []program {
	only := os.Getenv("C08_ONLY_FAMILY")
	var out []program
	if only == "" || only == famNames[famMain] {
		out = append(out, mainPrograms(maxMounts, quick)...)
	}
	if only == "" || only == famNames[famSpelling] {
		out = append(out, spellingPrograms(quick)...)
	}
	if only == "" || only == famNames[famPathCfg] {
		out = append(out, pathCfgPrograms(quick)...)
	}
	return out
}

// spellRoot: root-level prefixes of the mount-spelling family: the main alphabet plus "/" (a sub-app
// mounted at the root of its parent: it contains every path).
var spellRoot = []string{"/", "/api", "/api-v2", "/api/v1", "/ap", "/a"}

// spellingPrograms: the mount-spelling family. Every structure of <=2 mounts over spellRoot (children:
// nestedRel) with ONE mount, or ALL mounts, written in every applicable spelling (spellings) - the plain
// spelling of structures without a "/" mount is the main family - plus one app OBJECT mounted twice:
// at two root-level prefixes, and at a root-level prefix and below another mount.
func spellingPrograms(quick bool) []program {
	var out []program
	emit := func(ms []mount) {
		ms = append([]mount(nil), ms...)
		for i := range ms {
			ms[i].Spell = ""
			if ms[i].Via != viaUse {
				ms[i].Spell = spellings(ms[i].Rel)[ms[i].Via].class
			}
		}
		lates := []bool{false}
		if hasNested(ms) {
			lates = []bool{false, true}
		}
		for _, late := range lates {
			for _, rootOwn := range []bool{false, true} {
				for _, catch := range []bool{false, true} {
					out = append(out, program{Mounts: ms, NestLate: late, RootOwn: rootOwn, RootCatch: catch, Family: famSpelling})
				}
			}
		}
	}
	classes := spellingClasses()
	for _, base := range structures(2, spellRoot) {
		if len(base) == 0 {
			continue
		}
		slashMount := false
		for _, m := range base {
			slashMount = slashMount || m.Rel == "/"
		}
		seen := map[[2]int]bool{}
		try := func(vec [2]int) {
			for i := range base {
				if vec[i] < 0 {
					return // this mount has no spelling of that class
				}
			}
			if seen[vec] || (vec == [2]int{viaUse, viaUse} && !slashMount) {
				return
			}
			seen[vec] = true
			ms := append([]mount(nil), base...)
			for i := range ms {
				ms[i].Via = vec[i]
			}
			emit(ms)
		}
		// one mount, or all mounts, written in the spelling of class c
		for _, c := range classes {
			for mask := 1; mask < 1<<len(base); mask++ {
				vec := [2]int{viaUse, viaUse}
				for i := range base {
					if mask&(1<<i) != 0 {
						vec[i] = spellingIndex(base[i].Rel, c)
					}
				}
				try(vec)
			}
		}
		if !quick && len(base) == 2 {
			// thorough: every pair of spellings
			for v0 := range spellings(base[0].Rel) {
				for v1 := range spellings(base[1].Rel) {
					try([2]int{v0, v1})
				}
			}
		}
	}
	owns := []bool{false, true}
	for i, a := range spellRoot {
		for _, b := range spellRoot[i+1:] {
			for _, o := range owns {
				again := mk(-1, b, o, "")
				again.Again = 1
				emit([]mount{mk(-1, a, o, ""), again})
			}
		}
	}
	for _, a := range deepAlpha {
		for _, r := range deepAlpha {
			for _, b := range deepAlpha {
				if a == b {
					continue
				}
				for own := 0; own < 4; own++ {
					again := mk(-1, b, own&2 != 0, "")
					again.Again = 2
					emit([]mount{mk(-1, a, own&1 != 0, ""), mk(0, r, own&2 != 0, a), again})
				}
			}
		}
	}
	if !quick {
		// thorough: the deep chains root -> m0 -> m1 -> m2 with every mounting call written through a group / with a trailing slash
		for _, ms := range deepStructures(0) {
			for _, c := range []string{"Use(prefix+slash,sub)", "Group(prefix).Use(slash,sub)", "Group(prefix+slash).Use(slash,sub)", "Group(prefix+slash).Use(sub)", "Group(slash).Use(prefix,sub)"} {
				ms := append([]mount(nil), ms...)
				for i := range ms {
					ms[i].Via, ms[i].Spell = spellingIndex(ms[i].Rel, c), c
					if ms[i].Via < 0 {
						panic("no spelling " + c + " for " + ms[i].Rel)
					}
				}
				for _, late := range []bool{false, true} {
					for _, rootOwn := range []bool{false, true} {
						out = append(out, program{Mounts: ms, NestLate: late, RootOwn: rootOwn, Deep: true, Family: famSpelling})
					}
				}
			}
		}
	}
	return out
}

// pathCfgs: routing configurations of the root application in the path-spelling family.
var pathCfgs = []int{0, cfgCase, cfgStrict, cfgUnescape, cfgCase | cfgStrict | cfgUnescape}

// pathCfgPrograms: the path-spelling family. Every structure of <=2 mounts of the main alphabet (plain
// spelling, sub-apps complete before being mounted) x root configuration in pathCfgs; requestPaths adds
// pathVariants to the request paths of these programs.
func pathCfgPrograms(quick bool) []program {
	var out []program
	cfgs := pathCfgs
	if !quick {
		cfgs = []int{0, 1, 2, 3, 4, 5, 6, 7} // thorough: every combination of the three flags
	}
	for _, ms := range structures(2, prefixes) {
		if len(ms) == 0 {
			continue
		}
		for _, cfg := range cfgs {
			for _, rootOwn := range []bool{false, true} {
				for _, catch := range []bool{false, true} {
					out = append(out, program{Mounts: ms, RootOwn: rootOwn, RootCatch: catch, Family: famPathCfg, Cfg: cfg})
				}
			}
		}
	}
	return out
}

// pathVariants: other spellings of the paths at and below every mount prefix F: trailing slashes, an
// empty segment, another letter case, a percent-encoded letter, a percent-encoded slash at the boundary.
func pathVariants(p *program) []string {
	var out []string
	for _, m := range p.Mounts {
		f := m.Full
		if f == "/" {
			continue
		}
		flip := f[:1] + strings.ToUpper(f[1:2]) + f[2:]
		pct := f[:1] + fmt.Sprintf("%%%02X", f[1]) + f[2:]
		out = append(out, f+"/", f+"/x/", f+"//x", flip+"/x", strings.ToUpper(f), pct+"/x", f+"%2Fx")
	}
	return out
}

// modelPath: the request path as the application sees it (Ctx.Path()): percent-decoded under UnescapePath,
// the bytes of the request line otherwise. Letter case and trailing slashes are never touched.
func modelPath(p *program, path string) string {
	if p.Cfg&cfgUnescape == 0 || !strings.Contains(path, "%") {
		return path
	}
	var b []byte
	for i := 0; i < len(path); i++ {
		if path[i] == '%' && i+2 < len(path) {
			if v, err := strconv.ParseUint(path[i+1:i+3], 16, 8); err == nil {
				b = append(b, byte(v))
				i += 2
				continue
			}
		}
		b = append(b, path[i])
	}
	return string(b)
}

// foldedWant: the selection when prefix containment is read without regard to letter case. Under
// case-insensitive routing (the default) /Api/x is served by the routes of the app mounted at /api; the
// statement does not say whether /api then "contains" /Api/x: both readings are accepted there.
func foldedWant(p *program, path string) []int {
	q := *p
	q.Mounts = append([]mount(nil), p.Mounts...)
	for i := range q.Mounts {
		q.Mounts[i].Full = strings.ToLower(q.Mounts[i].Full)
	}
	return refSelect(&q, strings.ToLower(path))
}

func requestPaths(p *program) []string {
	set := map[string]bool{"/api-v2/x": true, "/apix": true, "/other": true}
	for _, q := range prefixes {
		set[q] = true
		set[q+"/x"] = true
	}
	if p.Family == famSpelling {
		set["/"], set["/x"] = true, true
	}
	for i, m := range p.Mounts {
		set[m.Full] = true
		set[under(m.Full, "/x")] = true
		if p.Family == famSpelling {
			set[under(m.Full, "/")] = true // the prefix itself written with a trailing slash
		}
		if m.Parent >= 0 {
			// bogus prefixes: the mount's chain of relative prefixes with ancestors dropped
			for _, q := range p.partialPrefixes(i) {
				set[q] = true
				set[q+"/x"] = true
			}
		}
		if p.Deep {
			set[m.Full+"x/x"] = true // not on a segment boundary of the real prefix
		}
	}
	if p.Family == famPathCfg {
		for _, v := range pathVariants(p) {
			set[v] = true
		}
	}
	out := make([]string, 0, len(set))
	for k := range set {
		out = append(out, k)
	}
	sort.Strings(out)
	return out
}

// ---------------------------------------------------------------------------
// reference model (written from the statement)

// contains: the mount prefix contains the request path on a segment boundary.
func contains(prefix, path string) bool {
	return prefix == "/" || path == prefix || strings.HasPrefix(path, prefix+"/")
}

// refSelect returns the handler ids the statement allows (0 = root, i+1 = mount i): the innermost
// (longest-prefix) mounted app that configured a handler and contains the path, otherwise the root.
// More than one id only when two configured apps are mounted at the very same full prefix (the
// statement does not rank those).
func refSelect(p *program, path string) []int {
	best := -1
	var ids []int
	for i, m := range p.Mounts {
		if !m.Own || !contains(m.Full, path) {
			continue
		}
		switch {
		case len(m.Full) > best:
			best = len(m.Full)
			ids = []int{p.appID(i)}
		case len(m.Full) == best:
			if id := p.appID(i); ids[0] != id {
				ids = append(ids, id)
			}
		}
	}
	if len(ids) == 0 {
		return []int{0}
	}
	return ids
}

// dupPrefix: two mounts share one full prefix that is a string prefix of the path.
func dupPrefix(p *program, path string) bool {
	for i, a := range p.Mounts {
		for _, b := range p.Mounts[i+1:] {
			if a.Full == b.Full && strings.HasPrefix(path, a.Full) {
				return true
			}
		}
	}
	return false
}

// routedGET: does any GET route of the program match the path (routes are "/" and "/x" in every sub-app).
func routedGET(p *program, path string) bool {
	if p.RootCatch {
		return true
	}
	if p.Cfg&cfgStrict == 0 && len(path) > 1 {
		path = strings.TrimRight(path, "/") // non-strict routing: trailing slashes do not count
		if path == "" {
			path = "/"
		}
	}
	for _, m := range p.Mounts {
		if path == m.Full || path == under(m.Full, "/x") {
			return true
		}
	}
	return false
}

// ---------------------------------------------------------------------------
// instrumented execution

type state struct {
	src           int
	beh           int
	got           []int // ids of injected error handlers in call order
	gotErr        error // error received by the last injected handler
	raised        error // error object returned by a harness handler (nil: the framework raised it)
	raiser        int   // id of the app whose handler raised (-1 none, 0 root mw / root catch-all)
	reqDig        []int // odometer digits for map ranges during the request
	reqRad        []int // radices observed
	reqPos        int
	phase         int // 0 build, 1 request
	bldPos        int
	bldRad        []int
	devK          int // build-phase call index that deviates (-1 none)
	devAlt        int
	chCalls       int64
	ordersSkipped int64 // orders not run because of the deviation cap
}

var st state

func chooser(kind string, n int, costly bool, label string) int {
	st.chCalls++
	if st.phase == 0 {
		k := st.bldPos
		st.bldPos++
		st.bldRad = append(st.bldRad, n)
		if k == st.devK && st.devAlt < n {
			return st.devAlt
		}
		return 0
	}
	i := st.reqPos
	st.reqPos++
	if i >= len(st.reqRad) {
		st.reqRad = append(st.reqRad, n)
		st.reqDig = append(st.reqDig, 0)
	} else if st.reqRad[i] != n {
		st.reqRad[i] = n
		if st.reqDig[i] >= n {
			st.reqDig[i] = 0
		}
	}
	return st.reqDig[i]
}

// nextOrder advances the odometer; false when all orders were visited. When the last run consulted more
// than maxFullOrderChoices owned choices only digit vectors with <= maxOrderDeviations non-default picks
// are visited (a vector with more is skipped together with all its extensions).
func nextOrder() bool {
	capped := st.reqPos > maxFullOrderChoices
	for advanceOrder() {
		if !capped {
			return true
		}
		nz := 0
		for _, d := range st.reqDig {
			if d != 0 {
				nz++
			}
		}
		if nz <= maxOrderDeviations {
			return true
		}
		st.ordersSkipped++
	}
	return false
}

func advanceOrder() bool {
	// positions beyond reqPos were not consulted in the last run
	n := st.reqPos
	if n > len(st.reqDig) {
		n = len(st.reqDig)
	}
	for i := n - 1; i >= 0; i-- {
		if st.reqDig[i]+1 < st.reqRad[i] {
			st.reqDig[i]++
			st.reqDig = st.reqDig[:i+1]
			st.reqRad = st.reqRad[:i+1]
			return true
		}
	}
	return false
}

func ehBody(id int, err error) string { return "EH" + strconv.Itoa(id) + "|" + err.Error() }

func makeEH(id int) fiber.ErrorHandler {
	return func(c fiber.Ctx, err error) error {
		st.got = append(st.got, id)
		st.gotErr = err
		switch st.beh {
		case behOK, behPlainAfterWrite, behPassBackAfterWrite:
			_ = c.Status(520 + id).SendString(ehBody(id, err))
		}
		switch st.beh {
		case behPlainAfterWrite, behPlain:
			return errors.New("error handler failed")
		case behPassBack, behPassBackAfterWrite:
			return err
		case behFiber4xx:
			return fiber.NewError(451, "error handler refuses")
		case behFiber5xx:
			return fiber.ErrBadGateway
		case behWrapGiven:
			return fmt.Errorf("error handler could not render: %w", err)
		case behWrapFiber:
			return fmt.Errorf("error handler could not render: %w", fiber.ErrServiceUnavailable)
		}
		return nil
	}
}

// failCode: the status a DefaultErrorHandler would derive from the error a failing handler returns
// (diagnostic only: names the class of a wrong status in the signature).
func failCode(beh int, delivered int16) int {
	switch beh {
	case behPassBack, behPassBackAfterWrite, behWrapGiven:
		if delivered > 0 {
			return int(delivered)
		}
	case behFiber4xx:
		return 451
	case behFiber5xx:
		return 502
	case behWrapFiber:
		return 503
	}
	return 500
}

func makeRoute(id int) fiber.Handler {
	return func(c fiber.Ctx) error {
		var e error
		switch st.src {
		case srcInner:
			_ = c.Status(200).SendString("partial response")
			e = fiber.NewError(422, "inner failure")
		case srcTeapot, srcReplaced:
			e = fiber.NewError(418, "short and stout")
		case srcSubMW:
			e = fiber.NewError(401, "not past this sub-app")
		case srcFiber503:
			e = fiber.ErrServiceUnavailable
		case srcWrapped:
			e = fmt.Errorf("lookup failed: %w", fiber.NewError(409, "conflict"))
		case srcPlain:
			e = errors.New("plain failure")
		case srcFW404:
			return c.Next()
		default:
			return c.SendString("ok")
		}
		st.raised, st.raiser = e, id
		return e
	}
}

func rootMW(c fiber.Ctx) error {
	switch st.src {
	case srcRootMW:
		e := fiber.NewError(403, "middleware says no")
		st.raised, st.raiser = e, 0
		return e
	case srcReplaced:
		// the chain below fails (route's 418 or the framework's 404/405); this frame returns ANOTHER error to the framework
		if err := c.Next(); err != nil {
			e := fiber.NewError(410, "replaced: "+err.Error())
			st.raised, st.raiser = e, 0
			return e
		}
		return nil
	}
	return c.Next()
}

// subMW: middleware of sub-app id, registered before its routes (sub.Use(mw)).
func subMW(id int) fiber.Handler {
	return func(c fiber.Ctx) error {
		if st.src == srcSubMW {
			e := fiber.NewError(401, "not past this sub-app")
			st.raised, st.raiser = e, id
			return e
		}
		return c.Next()
	}
}

// passNext: first handler of the two-handler route GET /x (the error comes back through Ctx.Next's in-route branch).
func passNext(c fiber.Ctx) error { return c.Next() }

func build(p *program) fasthttp.RequestHandler {
	st.phase, st.bldPos, st.bldRad = 0, 0, st.bldRad[:0]
	cfg := fiber.Config{CaseSensitive: p.Cfg&cfgCase != 0, StrictRouting: p.Cfg&cfgStrict != 0, UnescapePath: p.Cfg&cfgUnescape != 0}
	if p.RootOwn {
		cfg.ErrorHandler = makeEH(0)
	}
	app := fiber.New(cfg)
	if p.CustomCtx {
		app.NewCtxFunc(func(a *fiber.App) fiber.CustomCtx { return &myCtx{DefaultCtx: *fiber.NewDefaultCtx(a)} })
	}
	app.Use(rootMW)
	subs := make([]*fiber.App, len(p.Mounts))
	for i, m := range p.Mounts {
		if m.Again > 0 {
			subs[i] = subs[m.Again-1] // the same app object is mounted once more
			continue
		}
		c := fiber.Config{}
		if m.Own {
			c.ErrorHandler = makeEH(i + 1)
		}
		subs[i] = fiber.New(c)
		h := makeRoute(i + 1)
		subs[i].Use(subMW(i + 1))
		subs[i].Get("/", h)
		subs[i].Get("/x", passNext, h)
	}
	for _, i := range p.mountOrder() {
		m := p.Mounts[i]
		parent := app
		if m.Parent >= 0 {
			parent = subs[m.Parent]
		}
		spelled("", "", m.Rel, m.Via, parent, subs[i])
	}
	if p.RootCatch {
		app.Get("/*", makeRoute(0))
	}
	h := app.Handler()
	st.phase = 1
	return h
}

type outcome struct {
	got     [4]int8
	ngot    int8
	errCode int16 // code of the error delivered to the last injected handler (0: none delivered, -1: not a *fiber.Error)
	errSame bool  // delivered error is the very object the harness handler returned
	status  int16
	body    string
}

func (o *outcome) same(got []int, errCode int16, errSame bool, status int, body []byte) bool {
	if int(o.ngot) != len(got) || int(o.status) != status || o.errCode != errCode || o.errSame != errSame || o.body != string(body) {
		return false
	}
	for i, g := range got {
		if i < 4 && o.got[i] != int8(g) {
			return false
		}
	}
	return true
}

type seen struct {
	o      outcome
	order  []int // request-phase odometer digits
	dev    [2]int
	orders int
}

type caseCell struct {
	seen   []seen
	raised error
	evals  int
}

func orderText(keys []string, digits []int) any {
	if len(digits) != len(keys)-1 {
		return map[string]any{"chooser_digits": append([]int(nil), digits...)}
	}
	rest := append([]string(nil), keys...)
	var out []string
	for _, d := range digits {
		if d >= len(rest) {
			d = 0
		}
		out = append(out, rest[d])
		rest = append(rest[:d:d], rest[d+1:]...)
	}
	return append(out, rest...)
}

func appListKeys(p *program) []string {
	set := map[string]bool{"": true}
	for _, m := range p.Mounts {
		set[m.Full] = true
	}
	var ks []string
	for k := range set {
		ks = append(ks, k)
	}
	sort.Strings(ks)
	return ks
}

func (o *outcome) gotIDs() []int {
	out := make([]int, 0, o.ngot)
	for i := 0; i < int(o.ngot) && i < 4; i++ {
		out = append(out, int(o.got[i]))
	}
	return out
}

func (o *outcome) view() map[string]any {
	hs := []string{}
	for _, g := range o.gotIDs() {
		hs = append(hs, "EH"+strconv.Itoa(g))
	}
	return map[string]any{"injected_handlers_called": hs, "status": o.status, "body": o.body}
}

// rel classifies handler id g relative to the request path (diagnostic only, never part of the oracle).
func rel(p *program, g int, path string, want []int) string {
	for _, w := range want {
		if w == g {
			return "expected"
		}
	}
	if g == 0 {
		return "root"
	}
	// every entry that mounts the app object g (one app may be mounted more than once)
	var es []int
	for i := range p.Mounts {
		if p.appID(i) == g {
			es = append(es, i)
		}
	}
	for _, i := range es {
		if contains(p.Mounts[i].Full, path) {
			return "outer-mount"
		}
	}
	for _, i := range es {
		if strings.HasPrefix(path, p.Mounts[i].Full) {
			return "non-boundary-string-prefix-mount"
		}
	}
	for _, i := range es {
		for _, q := range p.partialPrefixes(i) {
			if contains(q, path) {
				return "mount-whose-prefix-lost-ancestor-segments" // the path is under the mount's relative prefixes with ancestors dropped
			}
		}
	}
	return "unrelated-mount"
}

// shadowers describes handler-less mounts that are string prefixes of the path (diagnostic).
func shadowers(p *program, path string, want []int) string {
	wl := 0
	if want[0] > 0 {
		wl = len(p.Mounts[want[0]-1].Full)
	}
	set := map[string]bool{}
	for _, m := range p.Mounts {
		if m.Own || !strings.HasPrefix(path, m.Full) {
			continue
		}
		switch {
		case !contains(m.Full, path):
			set["non-boundary"] = true
		case len(m.Full) > wl:
			set["inner"] = true
		case len(m.Full) == wl:
			set["same-prefix"] = true
		default:
			set["outer"] = true
		}
	}
	if len(set) == 0 {
		return "none"
	}
	var ks []string
	for k := range set {
		ks = append(ks, k)
	}
	sort.Strings(ks)
	return strings.Join(ks, "+")
}

func wantKind(want []int) string {
	if want[0] == 0 {
		return "root"
	}
	if len(want) > 1 {
		return "one-of-equal-prefix-mounts"
	}
	return "mount"
}

type outKey struct {
	src    int // -1: failing-handler variants (keyed by behaviour, not by source)
	beh    int
	rel    string
	status int
}

func main() {
	r := core.Start("C08")
	maxMounts := 3
	progs := programs(maxMounts, r.Quick())
	if dbg := os.Getenv("C08_DEBUG"); dbg != "" {
		debugRun(r, progs, dbg)
		return
	}
	if !r.IsWorker() {
		if r.Deadline.IsZero() {
			// internal wall-clock cap (the machine may be shared): end with exhaustive=false instead of overrunning the tier
			if r.Quick() {
				r.Deadline = r.Start.Add(5 * time.Minute)
			} else {
				r.Deadline = r.Start.Add(14 * time.Minute)
			}
		}
		nw := 16
		crashed := r.SpawnWorkers(nw, []string{"GOMAXPROCS=2"})
		for _, c := range crashed {
			core.Fatal("worker crashed: %s", c)
		}
		finish(r, progs, maxMounts)
		return
	}
	verifrt.SetEnvChooser(chooser)
	debug.SetGCPercent(800)
	debug.SetMemoryLimit(2 << 30) // 16 workers: the collector works harder long before the machine runs out of memory
	if pf := os.Getenv("C08_PROF"); pf != "" {
		f, _ := os.Create(pf)
		_ = pprof.StartCPUProfile(f)
		defer pprof.StopCPUProfile()
	}
	l := core.NewLocal()
	var fctx fasthttp.RequestCtx
	outs := map[outKey]int64{}
	for pi := range progs {
		if !r.Shard(pi) {
			continue
		}
		if r.Expired() {
			r.Cap("wall-clock budget reached")
			break
		}
		runProgram(r, l, &progs[pi], pi, &fctx, outs)
	}
	for k, n := range outs {
		if k.src < 0 {
			l.P.Outcomes[fmt.Sprintf("handler-fails-with=%s delivered-to=%s status=%d", behNames[k.beh], k.rel, k.status)] += n
			continue
		}
		l.P.Outcomes[fmt.Sprintf("src=%s delivered-to=%s status=%d", srcNames[k.src], k.rel, k.status)] += n
	}
	l.Add("chooser_calls", st.chCalls)
	l.Add("orders_skipped_by_deviation_cap", st.ordersSkipped)
	r.Merge(l.P)
	pprof.StopCPUProfile()
	r.Finish(core.Evidence{})
}

// tier policy: which parts of the product a tier enumerates.
type policy struct {
	forms      func(p *program) int  // number of URL forms
	devOrders  func(p *program) bool // all ErrorHandler orders also under mount.go deviations
	deviations func(p *program) bool // explore mount.go deviations for this program
}

// scenRuns: the added families judge selection under another spelling of the program / the request; they run the fully
// explored scenarios and the answering-handler scenarios of the added sources (what a failing handler yields is
// independent of the spelling and stays with the main family).
func scenRuns(p *program, s int, sc scen) bool {
	return p.Family == famMain || s < nFullScens || sc.beh == behOK
}

func tierPolicy(r *core.Run) policy {
	if r.Quick() {
		return policy{
			forms: func(p *program) int {
				if len(p.Mounts) <= 2 && p.Family == famMain {
					return nForm
				}
				return 1
			},
			devOrders:  func(*program) bool { return false },
			deviations: func(p *program) bool { return len(p.Mounts) <= 2 || p.Deep },
		}
	}
	return policy{forms: func(p *program) int {
		if (p.Deep && len(p.Mounts) > 3) || p.Family == famPathCfg {
			return 1
		}
		return nForm
	}, devOrders: func(p *program) bool { return !p.Deep }, deviations: func(*program) bool { return true }}
}

func runProgram(r *core.Run, l *core.Local, p *program, pi int, fctx *fasthttp.RequestCtx, outs map[outKey]int64) {
	pol := tierPolicy(r)
	paths := requestPaths(p)
	nf := pol.forms(p)
	nScen := len(scens)
	cells := make([]caseCell, len(paths)*nf*nScen)
	anyInjected := p.RootOwn
	for _, m := range p.Mounts {
		anyInjected = anyInjected || m.Own
	}
	keys := appListKeys(p)
	ptext := p.text()
	scratch, scratch2 := core.NewLocal(), core.NewLocal()

	// requests are prepared once per program
	reqs := make([]*fasthttp.Request, len(paths)*nf*2)
	for i, path := range paths {
		for f := 0; f < nf; f++ {
			uri := path
			switch f {
			case formQuery:
				uri = path + "?next=/api-v2/x"
			case formAbs:
				uri = "http://example.com" + path
			}
			reqs[(i*nf+f)*2] = fx.Req("GET", uri, "Host", "example.com")
			reqs[(i*nf+f)*2+1] = fx.Req("POST", uri, "Host", "example.com")
		}
	}

	runAll := func(h fasthttp.RequestHandler, dev [2]int, allOrdersFull bool, nfRun int, onlyFull bool) {
		for i := range paths {
			for f := 0; f < nfRun; f++ {
				for s, sc := range scens {
					if !scenRuns(p, s, sc) {
						continue
					}
					if !sc.full && (onlyFull || (!anyInjected && sc.beh != behOK)) {
						continue // no injected handler anywhere: the behaviour dimension is void
					}
					allOrders := allOrdersFull && (sc.full || len(p.Mounts) <= 2)
					cell := &cells[(i*nf+f)*nScen+s]
					req := reqs[(i*nf+f)*2]
					if sc.src == srcFW405 {
						req = reqs[(i*nf+f)*2+1]
					}
					st.src, st.beh = sc.src, sc.beh
					st.reqDig, st.reqRad = st.reqDig[:0], st.reqRad[:0]
					for {
						st.got, st.gotErr, st.raised, st.raiser, st.reqPos = st.got[:0], nil, nil, -1, 0
						fx.CallInto(fctx, h, req, nil, false)
						status := fctx.Response.StatusCode()
						body := fctx.Response.Body()
						var code int16
						same := false
						if st.gotErr != nil {
							code = -1
							var fe *fiber.Error
							if errors.As(st.gotErr, &fe) {
								code = int16(fe.Code)
							}
							same = st.raised != nil && st.gotErr == st.raised
						}
						cell.evals++
						if cell.raised == nil {
							cell.raised = st.raised
						}
						found := false
						for k := range cell.seen {
							if cell.seen[k].o.same(st.got, code, same, status, body) {
								cell.seen[k].orders++
								found = true
								break
							}
						}
						if !found {
							o := outcome{ngot: int8(len(st.got)), errCode: code, errSame: same, status: int16(status), body: string(body)}
							for k, g := range st.got {
								if k < 4 {
									o.got[k] = int8(g)
								}
							}
							cell.seen = append(cell.seen, seen{o: o, order: append([]int(nil), st.reqDig...), dev: dev, orders: 1})
						}
						if st.reqPos > 0 {
							l.Add("evaluations_with_owned_map_range", 1)
						}
						if st.reqPos > maxFullOrderChoices {
							l.Add("evaluations_under_capped_orders", 1)
						}
						if sc.beh != behOK && len(st.got) > 0 {
							l.Add("evaluations_with_failing_error_handler", 1)
							if fc := failCode(sc.beh, code); fc != 500 {
								l.Add("evaluations_failing_handler_returns_fiber_error_with_code_other_than_500", 1)
							}
							if st.got[0] > 0 {
								l.Add("evaluations_failing_handler_of_mounted_app", 1)
							}
							if p.CustomCtx {
								l.Add("evaluations_failing_handler_custom_ctx_funnel", 1)
							}
						}
						if !allOrders || !nextOrder() {
							break
						}
						if len(st.reqDig) > 8 {
							r.Cap("more than 8 owned map-range choices in one request")
							break
						}
					}
				}
			}
		}
	}

	// default mount.go order, every ErrorHandler order
	st.devK, st.devAlt = -1, 0
	h := build(p)
	bldRad := append([]int(nil), st.bldRad...)
	runAll(h, [2]int{-1, 0}, true, nf, false)
	l.Add("builds", 1)
	l.Add("programs_family_"+famNames[p.Family], 1)
	if p.Deep && p.Family == famMain {
		l.Add("deep_programs", 1)
		if p.NestLate && p.Order == nil {
			l.Add("deep_programs_top_down", 1)
		}
	}
	// <=1 non-default choice in the mount.go map ranges
	if pol.deviations(p) {
		for k, n := range bldRad {
			for alt := 1; alt < n; alt++ {
				st.devK, st.devAlt = k, alt
				h := build(p)
				runAll(h, [2]int{k, alt}, pol.devOrders(p), 1, true) // URL form is orthogonal to the mount.go loops: origin-form only
				l.Add("builds", 1)
				l.Add("builds_with_mount_go_deviation", 1)
			}
		}
	}

	// judge every case
	for i, rawPath := range paths {
		path := modelPath(p, rawPath) // the path the application sees
		want := refSelect(p, path)
		var alt []int // the other accepted selection where the statement is silent (letter case under case-insensitive routing)
		if p.Family == famPathCfg && p.Cfg&cfgCase == 0 {
			if fw := foldedWant(p, path); !sameIDs(fw, want) {
				alt = fw
			}
		}
		competing := 0
		for _, m := range p.Mounts {
			if strings.HasPrefix(path, m.Full) {
				competing++
			}
		}
		partial := false // the path lies under some mount's prefix with ancestors dropped
		for mi, m := range p.Mounts {
			if m.Parent < 0 {
				continue
			}
			for _, q := range p.partialPrefixes(mi) {
				partial = partial || contains(q, path)
			}
		}
		for f := 0; f < nf; f++ {
			for s, sc := range scens {
				cell := &cells[(i*nf+f)*nScen+s]
				if cell.evals == 0 {
					continue // variant not run for this program (see scen)
				}
				l.Add("evaluations", int64(cell.evals))
				l.Add("cases", 1)
				if competing >= 1 || partial {
					l.Add("nontrivial", int64(cell.evals))
				}
				l.Add("evaluations_family_"+famNames[p.Family], int64(cell.evals))
				if sc.src >= nOldSrc {
					l.Add("evaluations_added_error_sources", int64(cell.evals))
				}
				if p.Family == famSpelling {
					for _, m := range p.Mounts {
						if contains(m.Full, path) {
							switch {
							case spellings(m.Rel)[m.Via].group:
								l.Add("evaluations_path_inside_mount_made_through_group", int64(cell.evals))
							case m.Rel == "/":
								l.Add("evaluations_path_inside_mount_at_parent_root", int64(cell.evals))
							case m.Again > 0:
								l.Add("evaluations_path_inside_second_mount_of_one_app", int64(cell.evals))
							}
						}
					}
				}
				if p.Family == famPathCfg && rawPath != path {
					l.Add("evaluations_percent_decoded_path", int64(cell.evals))
				}
				if alt != nil {
					l.Add("evaluations_letter_case_unspecified", int64(cell.evals))
				}
				if p.Deep {
					l.Add("evaluations_deep_trees", int64(cell.evals))
					if contains(p.Mounts[2].Full, path) {
						l.Add("evaluations_deep_path_under_innermost_mount", int64(cell.evals))
					}
				}
				if partial && competing == 0 {
					l.Add("evaluations_path_under_partial_prefix_outside_every_mount", int64(cell.evals))
				}
				if competing >= 2 {
					l.Add("evaluations_with_two_or_more_string_prefix_mounts", int64(cell.evals))
				}
				dup := dupPrefix(p, path)
				if dup {
					l.Add("unspecified_skipped", 1) // two apps mounted at the very same full prefix: identity of the winner not judged
				}
				cs := func() map[string]any {
					return map[string]any{"program": ptext, "mounts": p.Mounts, "request": map[string]any{"path": rawPath, "url_form": formNames[f], "method": map[bool]string{true: "POST", false: "GET"}[sc.src == srcFW405]},
						"error_source": srcNames[sc.src], "injected_error_handlers": behNames[sc.beh], "construction_order": p.orderKind(), "expected_handler": wantText(want), "handlerless_mounts_that_are_string_prefixes_of_the_path": shadowers(p, path, want)}
				}
				if (pi%211 == 0 || (p.Deep && pi%499 == 0)) && i == len(paths)/2 && f == 0 && s == pi%nScen {
					l.Sample(map[string]any{"case": cs(), "orders_explored": cell.evals, "observed": cell.seen[0].o.view()})
				}
				for k := range cell.seen {
					o := &cell.seen[k].o
					r0 := "default-handler"
					if o.ngot == 1 {
						r0 = rel(p, int(o.got[0]), path, want)
						if r0 == "expected" {
							r0 = "expected-" + wantKind(want)
						}
					} else if o.ngot > 1 {
						r0 = "several"
					} else if want[0] == 0 && !p.RootOwn {
						r0 = "expected-root-default"
					}
					if sc.beh == behOK {
						outs[outKey{sc.src, 0, r0, int(o.status)}] += int64(cell.seen[k].orders)
					} else {
						outs[outKey{-1, sc.beh, r0, int(o.status)}] += int64(cell.seen[k].orders)
					}
				}
				if len(cell.seen) > 1 {
					// determinism: the choice must not depend on any iteration order
					a, b := cell.seen[0], cell.seen[1]
					set := map[string]bool{}
					loop := "App.ErrorHandler"
					for _, sn := range cell.seen {
						set[describeGot(p, &sn.o, path, want)] = true
						if sn.dev[0] >= 0 {
							loop = "mount.go"
						}
					}
					// if the same two outcomes are also reachable under the default mount.go order the ErrorHandler loop is the cause
					nDefault := 0
					for _, sn := range cell.seen {
						if sn.dev[0] < 0 {
							nDefault++
						}
					}
					if nDefault > 1 {
						loop = "App.ErrorHandler"
					}
					var ks []string
					for k := range set {
						ks = append(ks, k)
					}
					sort.Strings(ks)
					sig := fmt.Sprintf("choice-depends-on-map-order loop=%s want=%s seen={%s}", loop, wantKind(want), strings.Join(ks, ",")) + qualifier(p, rawPath, want, nil)
					l.Violate(sig, "the error handler that receives the error depends on Go map iteration order (two orders of the same program and request give different handlers)",
						cs(),
						map[string]any{"order_A": map[string]any{"ErrorHandler_appList_order": orderText(keys, a.order), "mount_go_deviation": devText(a.dev), "result": a.o.view()},
							"order_B":          map[string]any{"ErrorHandler_appList_order": orderText(keys, b.order), "mount_go_deviation": devText(b.dev), "result": b.o.view()},
							"distinct_results": len(cell.seen)},
						"identical result under every iteration order: "+wantText(want))
					continue
				}
				// judged into a scratch accumulator: where the statement leaves two readings (alt) the case passes
				// when either holds; signatures of the added families carry the family's qualifier
				clear(scratch.P.Violations)
				judge(scratch, p, path, rawPath, sc, want, dup, cell, &cell.seen[0].o, cs)
				if alt != nil {
					l.Add("unspecified_skipped", 1)
					if len(scratch.P.Violations) > 0 {
						clear(scratch2.P.Violations)
						judge(scratch2, p, path, rawPath, sc, alt, dup, cell, &cell.seen[0].o, cs)
						if len(scratch2.P.Violations) == 0 {
							l.Add("cases_accepted_under_the_case_insensitive_reading", 1)
							continue
						}
					}
				}
				for sig, v := range scratch.P.Violations { // at most one
					l.Violate(sig+qualifier(p, rawPath, want, &cell.seen[0].o), v.What, v.Case, v.Observed, v.Expected)
				}
			}
		}
	}
}

func sameIDs(a, b []int) bool {
	if len(a) != len(b) {
		return false
	}
	for i := range a {
		if a[i] != b[i] {
			return false
		}
	}
	return true
}

// qualifier: signature suffix of the added families (empty in the main family): names the spelling /
// configuration / path class under which the violation was seen.
func qualifier(p *program, rawPath string, want []int, o *outcome) string {
	switch p.Family {
	case famSpelling:
		// the mounts involved: the one(s) whose handler is expected; when the root's is expected, the one whose handler ran; else all
		ids := want
		if want[0] == 0 && o != nil && o.ngot > 0 {
			ids = o.gotIDs()
		}
		// ... together with their ancestors (the spelling of a parent's mount decides where its children end up)
		inv := make([]bool, len(p.Mounts))
		for i := range p.Mounts {
			for _, id := range ids {
				if id == 0 || p.appID(i) == id {
					for k := i; k >= 0; k = p.Mounts[k].Parent {
						inv[k] = true
					}
				}
			}
		}
		set := map[string]bool{}
		for i, m := range p.Mounts {
			if !inv[i] {
				continue
			}
			if m.Via != viaUse {
				set[m.Spell] = true
			}
			if m.Rel == "/" {
				set["mount-at-parent-root"] = true
			}
			if m.Again > 0 {
				set["one-app-mounted-twice"] = true
			}
		}
		var ks []string
		for k := range set {
			ks = append(ks, k)
		}
		sort.Strings(ks)
		if len(ks) == 0 {
			ks = []string{"plain"}
		}
		return " mounts-spelled=" + strings.Join(ks, "+")
	case famPathCfg:
		cfg := cfgText(p.Cfg)
		if cfg == "" {
			cfg = "default"
		}
		return " path=" + pathClass(p, rawPath) + " config={" + cfg + "}"
	}
	return ""
}

var pathClassNames = []string{"trailing-slash", "below-with-trailing-slash", "empty-segment", "other-letter-case-below", "upper-case-prefix", "percent-encoded-letter", "percent-encoded-slash-at-boundary"}

func pathClass(p *program, rawPath string) string {
	one := *p
	for _, m := range p.Mounts {
		one.Mounts = []mount{m}
		for k, v := range pathVariants(&one) {
			if v == rawPath {
				return pathClassNames[k]
			}
		}
	}
	return "plain"
}

func devText(d [2]int) any {
	if d[0] < 0 {
		return "none (default order in every mount.go loop)"
	}
	return map[string]int{"owned_choice_index": d[0], "alternative": d[1]}
}

func wantText(want []int) string {
	var s []string
	for _, w := range want {
		if w == 0 {
			s = append(s, "root application's handler")
		} else {
			s = append(s, "EH"+strconv.Itoa(w))
		}
	}
	return strings.Join(s, " or ")
}

func describeGot(p *program, o *outcome, path string, want []int) string {
	switch {
	case o.ngot == 0:
		if want[0] == 0 && !p.RootOwn {
			return "expected"
		}
		if p.RootOwn {
			return "default-handler-not-root" // root has an injected handler, so a sub-app's (or no) handler answered
		}
		return "root" // a DefaultErrorHandler answered: the root's default (a handler-less sub-app's default is indistinguishable)
	case o.ngot == 1:
		return rel(p, int(o.got[0]), path, want)
	}
	return "several-handlers"
}

// judge applies the oracle to the single (order-independent) outcome of a case.
func judge(l *core.Local, p *program, path, rawPath string, sc scen, want []int, dup bool, cell *caseCell, o *outcome, mkcs func() map[string]any) {
	s := sc.src
	src := srcNames[s]
	// the error the chain returned
	expCode, expMsg := 0, ""
	if cell.raised != nil {
		expMsg = cell.raised.Error()
		expCode = 500
		var fe *fiber.Error
		if errors.As(cell.raised, &fe) {
			expCode = fe.Code
		}
	} else {
		// the framework's own error: 405 when the path is routed for GET and the request is a POST, else 404
		if s == srcFW405 && routedGET(p, path) {
			expCode, expMsg = 405, "Method Not Allowed"
		} else {
			expCode = 404
			expMsg = "Cannot " + map[bool]string{true: "POST", false: "GET"}[s == srcFW405] + " " + rawPath
		}
		// path-spelling family: whether another spelling of a routed path is routed (405) or not (404) depends on the
		// routing configuration, which the 6-line routing model does not know: either framework error is accepted
		if s == srcFW405 && p.Family == famPathCfg {
			switch {
			case o.ngot == 0 && (o.status == 404 || o.status == 405):
				expCode = int(o.status)
			case o.ngot > 0 && (o.errCode == 404 || o.errCode == 405):
				expCode = int(o.errCode)
			}
		}
	}
	wantInjected := want[0] != 0 || p.RootOwn
	view := o.view()
	// exactly once, exactly one
	if o.ngot > 1 {
		kind := "different-handlers"
		if o.got[0] == o.got[1] {
			kind = "same-handler-twice"
		}
		l.Violate(fmt.Sprintf("delivered-more-than-once %s src=%s", kind, src), "one error was delivered to injected error handlers more than once", mkcs(), view, "exactly one delivery to "+wantText(want))
		return
	}
	if dup {
		return // the statement does not rank two apps mounted at the same full prefix
	}
	if !wantInjected {
		// root application's handler is the DefaultErrorHandler
		if o.ngot != 0 {
			l.Violate(fmt.Sprintf("wrong-handler want=root got=%s", rel(p, int(o.got[0]), path, want)),
				"the error was delivered to the wrong application's handler", mkcs(), view, "root application's (default) handler: status "+strconv.Itoa(expCode))
			return
		}
		// default handler: status of the error value becomes the response status
		if int(o.status) != expCode {
			l.Violate(fmt.Sprintf("default-handler-status src=%s got=%d want=%d", src, o.status, expCode), "under the default handler the response status is not the status of the error value", mkcs(), view, expCode)
			return
		}
		if !strings.Contains(o.body, expMsg) && s != srcFW404 && s != srcFW405 {
			l.Violate("default-handler-body src="+src, "default handler response does not carry the error text (was another error delivered?)", mkcs(), view, expMsg)
		}
		return
	}
	if o.ngot == 0 {
		l.Violate(fmt.Sprintf("wrong-handler want=%s got=%s", wantKind(want), describeGot(p, o, path, want)),
			"no configured handler received the error (a default handler answered) although a configured handler is in scope", mkcs(), view, wantText(want))
		return
	}
	g := int(o.got[0])
	ok := false
	for _, w := range want {
		ok = ok || w == g
	}
	if !ok {
		l.Violate(fmt.Sprintf("wrong-handler want=%s got=%s", wantKind(want), rel(p, g, path, want)),
			"the error was delivered to the wrong application's handler", mkcs(), view, wantText(want))
		return
	}
	// the delivered error is the error the chain returned
	if cell.raised != nil && !o.errSame {
		l.Violate("delivered-error-differs src="+src, "the handler received a different error value than the one the chain returned", mkcs(), view, expMsg)
		return
	}
	if cell.raised == nil && int(o.errCode) != expCode {
		l.Violate(fmt.Sprintf("framework-error-code src=%s got=%d want=%d", src, o.errCode, expCode), "framework error delivered with an unexpected code", mkcs(), view, expCode)
		return
	}
	if sc.beh != behOK {
		// a failing error handler yields a 500 (whatever it fails with; the body is not specified)
		if o.status != 500 {
			gotS := strconv.Itoa(int(o.status))
			switch {
			case int(o.status) == 520+g:
				gotS = "status-written-by-the-failing-handler"
			case int(o.status) == failCode(sc.beh, o.errCode):
				gotS = "code-of-the-error-the-handler-returned"
			}
			hk := "mount"
			if g == 0 {
				hk = "root"
			}
			l.Violate(fmt.Sprintf("failing-handler-status handler=%s fails-with=%s got=%s", hk, behNames[sc.beh], gotS), "the error handler returned an error but the response status is not 500", mkcs(), view, 500)
		}
		return
	}
	if int(o.status) != 520+g || !strings.HasPrefix(o.body, "EH"+strconv.Itoa(g)+"|") {
		l.Violate("response-not-from-selected-handler src="+src, "exactly one injected handler ran but the response is not the one it wrote (a second, uncounted delivery overwrote it)", mkcs(), view, fmt.Sprintf("status %d body EH%d|...", 520+g, g))
	}
}

func finish(r *core.Run, progs []program, maxMounts int) {
	c := r.P.Counters
	if os.Getenv("C08_ONLY_FAMILY") != "" {
		// development aid: one family only, no vacuity checks, evidence marked non-exhaustive
		r.Cap("C08_ONLY_FAMILY set: only one family was run")
		r.Finish(core.Evidence{Level: "exploration", Exhaustive: false, Coverage: map[string]any{"evaluations": c["evaluations"], "distinct_nontrivial": c["nontrivial"], "rule": "development run of one family", "bounds": map[string]any{"programs": len(progs)}}})
		return
	}
	if c["evaluations_with_owned_map_range"] == 0 {
		// with violations present the run is reported normally (a tree that bypasses App.ErrorHandler is a finding, not a harness fault)
		if len(r.P.Violations) == 0 {
			core.Fatal("the owned map range in App.ErrorHandler was never consulted: overlay not applied?")
		}
		r.Note("the owned map range in App.ErrorHandler was never consulted during a request")
	}
	if c["evaluations_with_two_or_more_string_prefix_mounts"] == 0 {
		core.Fatal("vacuous: no evaluation had two competing mount prefixes")
	}
	if c["deep_programs_top_down"] == 0 || c["evaluations_deep_path_under_innermost_mount"] == 0 || c["evaluations_path_under_partial_prefix_outside_every_mount"] == 0 {
		core.Fatal("vacuous: deep mount trees / partial-prefix paths were not exercised")
	}
	if c["evaluations_failing_handler_returns_fiber_error_with_code_other_than_500"] == 0 || c["evaluations_failing_handler_of_mounted_app"] == 0 || c["evaluations_failing_handler_custom_ctx_funnel"] == 0 {
		if len(r.P.Violations) == 0 {
			core.Fatal("vacuous: failing error handlers (returning *fiber.Error values, mounted apps, CustomCtx funnel) were not exercised")
		}
	}
	if c["evaluations_path_inside_mount_made_through_group"] == 0 || c["evaluations_path_inside_mount_at_parent_root"] == 0 || c["evaluations_path_inside_second_mount_of_one_app"] == 0 {
		core.Fatal("vacuous: the mount-spelling family (mounts made through groups, mounts at the parent's root, one app mounted twice) was not exercised")
	}
	if c["evaluations_percent_decoded_path"] == 0 || c["evaluations_letter_case_unspecified"] == 0 {
		core.Fatal("vacuous: the path-spelling family (percent-encoded paths under UnescapePath, other letter case) was not exercised")
	}
	if c["evaluations_added_error_sources"] == 0 {
		core.Fatal("vacuous: the added error sources were not exercised")
	}
	if !r.Quick() && c["evaluations_under_capped_orders"] == 0 {
		core.Fatal("vacuous: no request consulted more than %d owned choices (5-entry appList expected in thorough)", maxFullOrderChoices)
	}
	pol := "thorough: CustomCtx funnel for programs with <=2 mounts and for 3 sibling mounts; 3 URL forms for every program (4-mount deep trees: origin-form) under the default mount.go order; under each single mount.go deviation: origin-form, every App.ErrorHandler order; deep trees: chain of 3 under every order of its Use calls and both funnels, 4-mount deep trees (chain + one mount off the root, m0 or m1) top-down and bottom-up, mount.go deviations of deep trees evaluated under the default ErrorHandler order"
	if r.Quick() {
		pol = "quick: CustomCtx funnel and nested-Use-after-parent-mounted only for programs with <=2 mounts; 3 URL forms for programs with <=2 mounts, origin-form only for 3 mounts; mount.go deviations for programs with <=2 mounts, and for deep trees, evaluated under the default ErrorHandler order; deep trees: the chain of 3 only, top-down and bottom-up, DefaultCtx funnel, origin-form"
	}
	r.Finish(core.Evidence{
		Level:      "exploration",
		Exhaustive: true,
		Coverage: map[string]any{
			"evaluations":         c["evaluations"],
			"distinct_nontrivial": c["nontrivial"],
			"rule": fmt.Sprintf("full product: %d programs (every set of <=%d mounts over root prefixes %v, children of one mount with relative prefixes %v, each sub-app with/without own ErrorHandler, nested Use before/after the parent is mounted, root with default/custom handler, with/without root catch-all, DefaultCtx funnel / CustomCtx funnel; plus DEEP trees: every chain root->m0->m1->m2 with prefixes from %v (two nesting levels below a mount; thorough: plus one more mount off the root, m0 or m1), built top-down (parents mounted first, descendants left to the start-up pass appendSubAppLists) and bottom-up (thorough: every order of the chain's Use calls)) x request paths {each alphabet prefix, each full mount prefix, each PARTIAL prefix of a nested mount = its chain of relative prefixes with some ancestors dropped (where a sub-app registered under a truncated path would answer), each +\"/x\", /apix, /other; deep trees also full prefix+\"x/x\"} x URL forms %v x %d error sources %v x %d behaviours of the injected error handlers %v (the same behaviour for the root's and every mounted app's handler: it answers, or it FAILS = returns non-nil: a plain error / the very error it was given / a fresh *fiber.Error 451 / fiber.ErrBadGateway / an error wrapping the given one / an error wrapping fiber.ErrServiceUnavailable, without writing or after having written a response; judged: still exactly one delivery to the selected handler and status 500; a panicking handler is not covered by the statement and not run; the answering handler and one failing variant are explored in full, the other failing variants under the default mount.go order, every ErrorHandler order in programs with <=2 mounts, default order in larger ones, and only in programs that inject a handler) x every permutation of the appList range in App.ErrorHandler (chooser driven by an odometer; all n! orders while a request consults <=%d owned choices = n<=4 map entries; with 5 entries (thorough 4-mount deep trees) the 46 of 120 orders with <=%d non-default picks, which still realise every relative order of any three entries) x {default, each single non-default choice} in the map ranges of mount.go; one evaluation = one request under one iteration order; non-trivial = at least one mount prefix is a string prefix of the request path (the selection loop has something to decide) or the path lies under a partial prefix of a nested mount (the scope clause has something to refute). %s"+
				" ERROR SOURCES: the first %d are explored in full; the last %d (a sub-app's own middleware registered before its routes; a root middleware that REPLACES the error coming back from Next - the replacement is what must be delivered, once; the shared package-level value fiber.ErrServiceUnavailable = 5xx with the status text as message; an error WRAPPING a *fiber.Error, which the documented default handler maps with errors.As) with answering (or default) handlers and with the two failing behaviours that hand the given error back, under the default mount.go order, every ErrorHandler order in programs with <=2 mounts; every sub-app has a pass-through middleware and its GET /x route two handlers, so errors travel back through up to four frames."+
				" FAMILY mount-spelling (%d programs): every structure of <=2 mounts over root prefixes %v (\"/\" = a sub-app mounted at its parent's root, which contains every path) with ONE mount or ALL mounts (thorough: every pair of spellings; deep chains all through groups / with trailing slashes) written as %v - all spellings denote the same mount, so the same handler is expected; plus ONE APP OBJECT MOUNTED TWICE (two root-level prefixes; a root-level prefix and below another mount); x rootOwn x catch-all x both nesting orders x request paths (as above plus / and /x) x the fully explored scenarios and the answering scenarios of the added sources x every ErrorHandler order x single mount.go deviations (both App.mount and Group.mount ranges are owned)."+
				" FAMILY path-spelling-x-routing-config (%d programs): every structure of <=2 mounts of the main alphabet x root Config %v (bit 1 CaseSensitive, 2 StrictRouting, 4 UnescapePath) x request paths as above plus, per mount prefix F: %v built as F/, F/x/, F//x, F with its first letter in the other case + /x, upper-case F, F with its first letter percent-encoded + /x, F%%2Fx; the reference decides on the path the application sees (percent-decoded under UnescapePath only; letter case and slashes untouched); where routing is case-insensitive and the two readings of 'contains' differ, either handler is accepted (unspecified_skipped), under CaseSensitive only the byte-wise one; POST requests: either framework error (404/405) is accepted, its delivery is judged.",
				len(progs), maxMounts, prefixes, nestedRel, deepAlpha, formNames, nSrc, srcNames, nBeh, behNames, maxFullOrderChoices, maxOrderDeviations, pol,
				nOldSrc, nSrc-nOldSrc, c["programs_family_"+famNames[famSpelling]], spellRoot, spellingClasses(), c["programs_family_"+famNames[famPathCfg]], map[bool][]int{true: pathCfgs, false: {0, 1, 2, 3, 4, 5, 6, 7}}[r.Quick()], pathClassNames),
			"bounds": map[string]any{"max_mounts": maxMounts, "max_mounts_deep_trees": map[bool]int{true: 3, false: 4}[r.Quick()], "nesting_depth": 2, "programs": len(progs), "deep_programs": c["deep_programs"],
				"error_sources": nSrc, "error_handler_behaviours": nBeh, "source_x_behaviour_scenarios": len(scens),
				"max_applist_entries": map[bool]int{true: 4, false: 5}[r.Quick()], "all_orders_up_to_applist_entries": maxFullOrderChoices + 1, "max_order_deviations_beyond": maxOrderDeviations,
				"mount_spelling_classes": len(spellingClasses()), "routing_configs": map[bool]int{true: len(pathCfgs), false: 8}[r.Quick()], "path_spellings_per_mount": len(pathClassNames),
				"programs_mount_spelling_family": c["programs_family_"+famNames[famSpelling]], "programs_path_spelling_family": c["programs_family_"+famNames[famPathCfg]],
				"max_orders_per_request": map[bool]int{true: 24, false: 46}[r.Quick()], "orders_skipped_by_deviation_cap": c["orders_skipped_by_deviation_cap"], "mount_go_deviations_per_build": 1},
		},
		Assumptions: []string{
			"handler-level drive (app.Handler() on a fake connection); both funnels (defaultRequestHandler and customRequestHandler via app.NewCtxFunc) are driven",
			"iteration order of the map ranges in App.ErrorHandler / mount.go is owned through a syntactic overlay rewrite (verifrt.MapOrder); a snapshot of the keys is iterated, i.e. entries inserted during appendSubAppLists' own iteration are not revisited (Go permits either)",
			"two configured apps mounted at the same full prefix: the statement does not rank them, the identity of the winner is not judged (determinism still is)",
			"which framework error (404 vs 405) arises is taken from a 6-line routing model, only its delivery is judged",
			"all spellings of a mounting call (Use with/without trailing or leading slash, through a Group, without a prefix) denote the mount at parent prefix + relative prefix: this is how the router registers the sub-app's routes",
			"the request path of the statement is Ctx.Path(): the bytes of the request line, percent-decoded only under Config.UnescapePath; whether /api contains /Api/x under case-insensitive routing is not specified and not judged",
		},
	})
}

func debugRun(r *core.Run, progs []program, dbg string) {
	// C08_DEBUG=<substring of program text> : run the first matching program in-process and print its violations
	verifrt.SetEnvChooser(chooser)
	var fctx fasthttp.RequestCtx
	n := 0
	for pi := range progs {
		if !strings.Contains(progs[pi].text(), dbg) && dbg != "all" {
			continue
		}
		l := core.NewLocal()
		outs := map[outKey]int64{}
		runProgram(r, l, &progs[pi], pi, &fctx, outs)
		fmt.Println("PROGRAM", progs[pi].text(), "evaluations", l.P.Counters["evaluations"])
		var sigs []string
		for k := range l.P.Violations {
			sigs = append(sigs, k)
		}
		sort.Strings(sigs)
		for _, k := range sigs {
			v := l.P.Violations[k]
			fmt.Printf("  %s (x%d)\n    case %s\n    observed %s\n    expected %s\n", k, v.Count, core.Key(v.Case), core.Key(v.Observed), core.Key(v.Expected))
		}
		n++
		if n >= 3 && dbg != "all" {
			break
		}
	}
}
