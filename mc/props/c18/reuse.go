package main

// Part A4: recycled objects. Request and Response objects are pooled: Response.Close / ReleaseRequest / Request.Reset
// hand an object that carried one request's configuration (and one response's data) to the next request. The statement
// makes the request on the wire a function of THE REQUEST'S configuration, and every response handed back the response
// of its own request - so whatever an object carried before must not matter. For every ordered pair (earlier layout L,
// probe layout P) over a menu of single-carrier layouts plus "everything at once", and every way an object gets
// recycled (explicit Reset, pool round trip through Response.Close, ReleaseRequest after a transport error, after a
// body-serialisation error, after a URL error), the probe sent on the recycled object must put the same request on the
// wire, show the same configuration through the Request's accessors and hand back the same response as the probe sent on
// a never-used object.

import (
	"bytes"
	"context"
	"fmt"
	"io"
	"runtime"
	"strings"
	"time"

	"github.com/gofiber/fiber/v3/client"
	"github.com/valyala/fasthttp"

	"verifmc/core"
)

// reuseRT is the transport of this part: it records the request like fidRT and answers with the response the
// harness has prepared for the request at hand (a rich one for earlier requests, a bare one for probes).
type reuseRT struct {
	last seen
	rich bool
	fail bool
}

var errReuseTransport = fmt.Errorf("injected transport failure")

func (t *reuseRT) RoundTrip(hc *fasthttp.HostClient, req *fasthttp.Request, resp *fasthttp.Response) (bool, error) {
	_, _ = fidTransport.RoundTrip(hc, req, resp)
	t.last = fidTransport.last
	if t.fail {
		return false, errReuseTransport
	}
	if t.rich {
		resp.SetStatusCode(201)
		resp.Header.Set("X-A", "from-earlier-response")
		resp.Header.Add("Set-Cookie", "s=earlier; path=/")
		resp.Header.Add("Set-Cookie", "t=earlier2; path=/")
		resp.SetBodyString("body of the earlier response")
	}
	return false, nil
}

var reuseTransport = &reuseRT{}
var reuseFH = &fasthttp.Client{Transport: reuseTransport}

type layout struct {
	Name  string
	Apply func(rq *client.Request)
}

func reuseLayouts() []layout {
	ls := []layout{
		{"nothing", func(*client.Request) {}},
		{"header", func(rq *client.Request) { rq.SetHeader("X-T", "hv") }},
		{"header-two-values", func(rq *client.Request) { rq.AddHeader("X-M", "1").AddHeader("X-M", "2") }},
		{"query", func(rq *client.Request) { rq.SetParam("q", "pv").AddParam("r", "1").AddParam("r", "2") }},
		{"cookie", func(rq *client.Request) { rq.SetCookie("ck", "cv").SetCookie("cl", "cw") }},
		{"path-param", func(rq *client.Request) { rq.SetPathParam("id", "7") }},
		{"user-agent", func(rq *client.Request) { rq.SetUserAgent("agent/1") }},
		{"referer", func(rq *client.Request) { rq.SetReferer("http://ref.test/") }},
		{"form", func(rq *client.Request) { rq.SetFormData("f", "1").AddFormData("g", "a").AddFormData("g", "b") }},
		{"file", func(rq *client.Request) {
			rq.AddFileWithReader("up.txt", io.NopCloser(bytes.NewReader([]byte("file content"))))
		}},
		{"two-files-and-form", func(rq *client.Request) {
			rq.AddFileWithReader("one.txt", io.NopCloser(bytes.NewReader([]byte("1")))).
				AddFileWithReader("two.txt", io.NopCloser(bytes.NewReader([]byte("22")))).SetFormData("f", "1")
		}},
		{"boundary", func(rq *client.Request) {
			rq.SetBoundary("--custom-boundary").AddFileWithReader("b.txt", io.NopCloser(bytes.NewReader([]byte("b"))))
		}},
		{"raw-body", func(rq *client.Request) { rq.SetRawBody([]byte("raw bytes")) }},
		{"json-body", func(rq *client.Request) { rq.SetJSON(map[string]string{"k": "v"}) }},
		{"xml-body", func(rq *client.Request) {
			rq.SetXML(reuseXML{K: "v"})
		}},
		{"timeout", func(rq *client.Request) { rq.SetTimeout(time.Hour) }},
		{"max-redirects", func(rq *client.Request) { rq.SetMaxRedirects(3) }},
		{"context", func(rq *client.Request) {
			rq.SetContext(context.WithValue(context.Background(), reuseCtxKey{}, "earlier"))
		}},
	}
	all := layout{Name: "everything"}
	parts := append([]layout{}, ls[1:9]...)               // header .. form
	parts = append(parts, ls[10], ls[15], ls[16], ls[17]) // files+form, timeout, redirects, context
	all.Apply = func(rq *client.Request) {
		for _, p := range parts {
			p.Apply(rq)
		}
	}
	return append(ls, all)
}

type reuseCtxKey struct{}

type reuseXML struct {
	K string `xml:"k"`
}

// what a probe shows: the request on the wire, the configuration visible through accessors just before sending,
// and the response handed back
type reuseObs struct {
	Wire      seen
	Timeout   time.Duration
	Redirects int
	Boundary  string
	NFiles    int
	UA, Ref   string
	CtxValue  any
	Err       string
	Status    int
	Body      string
	XA        string
	NCookies  int
}

const reuseProbeURL = "http://srv.test/u/:id/end"

func normWire(s seen) seen {
	if strings.HasPrefix(s.CT, "multipart/form-data") {
		// the boundary is random unless configured: compare the parsed parts instead of the raw body
		if i := strings.Index(s.CT, "boundary="); i >= 0 && !strings.Contains(s.CT, "custom-boundary") {
			s.CT = s.CT[:i] + "boundary=<random>"
		}
		if !strings.Contains(s.CT, "custom-boundary") {
			s.Body = "<multipart>"
			delete(s.Headers, "Content-Type")
			delete(s.Headers, "Content-Length")
		}
	}
	return s
}

func accessors(rq *client.Request, o *reuseObs) {
	o.Timeout, o.Redirects, o.NFiles = rq.Timeout(), rq.MaxRedirects(), len(rq.Files())
	o.Boundary = rq.Boundary()
	if strings.HasPrefix(o.Boundary, "--FiberFormBoundary") {
		o.Boundary = "<default>"
	}
	o.UA, o.Ref = rq.UserAgent(), rq.Referer()
	o.CtxValue = rq.Context().Value(reuseCtxKey{})
}

// sendProbe configures P on rq and sends it; the response is closed (both objects go back to their pools).
func sendProbe(rq *client.Request, p layout) (reuseObs, *client.Response) {
	var o reuseObs
	p.Apply(rq)
	accessors(rq, &o)
	reuseTransport.rich, reuseTransport.fail = false, false
	reuseTransport.last = seen{}
	resp, err := rq.Get(reuseProbeURL)
	o.Wire = normWire(reuseTransport.last)
	if err != nil {
		o.Err = err.Error()
		return o, nil
	}
	o.Status, o.Body, o.XA, o.NCookies = resp.StatusCode(), string(resp.Body()), strings.Clone(resp.Header("X-A")), len(resp.Cookies())
	return o, resp
}

// diffObs names the first component in which two observations differ
func diffObs(a, b reuseObs) string {
	type f struct {
		name string
		x, y any
	}
	fs := []f{
		{"wire-method", a.Wire.Method, b.Wire.Method}, {"wire-path", a.Wire.Path, b.Wire.Path}, {"wire-query", a.Wire.Query, b.Wire.Query},
		{"wire-cookie", a.Wire.Cookies, b.Wire.Cookies}, {"wire-user-agent", a.Wire.UA, b.Wire.UA}, {"wire-referer", a.Wire.Ref, b.Wire.Ref},
		{"wire-form", a.Wire.Form, b.Wire.Form}, {"wire-files", a.Wire.Files, b.Wire.Files}, {"wire-content-type", a.Wire.CT, b.Wire.CT},
		{"wire-body", a.Wire.Body, b.Wire.Body}, {"wire-header", a.Wire.Headers, b.Wire.Headers},
		{"request-timeout", a.Timeout, b.Timeout}, {"request-max-redirects", a.Redirects, b.Redirects}, {"request-boundary", a.Boundary, b.Boundary},
		{"request-files", a.NFiles, b.NFiles}, {"request-user-agent", a.UA, b.UA}, {"request-referer", a.Ref, b.Ref}, {"request-context", a.CtxValue, b.CtxValue},
		{"error", a.Err, b.Err}, {"response-status", a.Status, b.Status}, {"response-body", a.Body, b.Body}, {"response-header", a.XA, b.XA}, {"response-cookies", a.NCookies, b.NCookies},
	}
	for _, x := range fs {
		if core.Key(x.x) != core.Key(x.y) {
			return x.name
		}
	}
	return ""
}

var reuseModes = []string{"request-reset", "pool-after-close", "release-after-transport-error", "release-after-body-error", "release-after-url-error"}

func runReuse(r *core.Run) {
	l := core.NewLocal()
	layouts := reuseLayouts()
	cl := client.NewWithClient(reuseFH)
	// baselines: every probe on an object no request has used (the pools are emptied first and nothing is released
	// while the baselines are taken, so AcquireRequest / AcquireResponse construct new objects)
	runtime.GC()
	runtime.GC()
	base := map[string]reuseObs{}
	var keep []any
	for _, p := range layouts {
		rq := client.AcquireRequest().SetClient(cl)
		o, resp := sendProbe(rq, p)
		keep = append(keep, rq, resp)
		base[p.Name] = o
		if o.Err != "" {
			l.Violate("reuse probe-failed-on-fresh-object layout="+p.Name, "a probe request failed on a fresh object", p.Name, o.Err, nil)
		}
	}
	usedReq := map[*client.Request]bool{}
	hold := keep
	for _, k := range keep {
		if rq, ok := k.(*client.Request); ok {
			usedReq[rq] = true
		}
	}
	freshReq := func() *client.Request {
		for {
			rq := client.AcquireRequest()
			if !usedReq[rq] {
				usedReq[rq] = true
				return rq
			}
			hold = append(hold, rq) // a stray recycled object: keep it out of the pool
		}
	}
	type reuseViol struct {
		comp, earlier, mode string
		cs                  map[string]any
		got, want           reuseObs
	}
	var found []reuseViol
	respSeen := false
	single := map[string]bool{} // component|mode reported with a single-carrier earlier layout
	for _, mode := range reuseModes {
		for _, e := range layouts {
			for _, p := range layouts {
				var got reuseObs
				var sameReq, sameResp, broken bool
				// pool round trips hand back the same object unless the goroutine moved to another P: retry a few times
				for try := 0; try < 6; try++ {
					// every case starts on a never-used Request (objects that went through a case are kept out of the
					// pools afterwards), so that whatever survives into the probe comes from THIS earlier layout
					rq := freshReq().SetClient(cl)
					e.Apply(rq)
					reuseTransport.rich, reuseTransport.fail = true, mode == "release-after-transport-error"
					url := "http://srv.test/earlier/:id"
					switch mode {
					case "release-after-body-error":
						rq.SetJSON(make(chan int)) // cannot be marshalled: parserRequestBody fails after URL and headers were assembled
					case "release-after-url-error":
						url = "srv.test/no-scheme"
					}
					resp1, err := rq.Post(url)
					var rq2 *client.Request
					switch mode {
					case "request-reset":
						if err != nil {
							break
						}
						client.ReleaseResponse(resp1) // the response only; the caller keeps the request object
						rq.Reset()
						rq2, sameReq = rq, true
					case "pool-after-close":
						if err != nil {
							break
						}
						resp1.Close()
						rq2 = client.AcquireRequest().SetClient(cl)
						sameReq = rq2 == rq
					default:
						if err == nil {
							resp1.Close()
							err = fmt.Errorf("the earlier request was expected to fail")
							break
						}
						err = nil
						client.ReleaseRequest(rq)
						rq2 = client.AcquireRequest().SetClient(cl)
						sameReq = rq2 == rq
					}
					if err != nil || rq2 == nil {
						l.Violate("reuse earlier-request-unexpected-result mode="+mode+" earlier="+e.Name, "the earlier request of a reuse case did not end as the case needs", map[string]any{"mode": mode, "earlier": e.Name}, fmt.Sprint(err), nil)
						broken = true
						break
					}
					var resp2 *client.Response
					got, resp2 = sendProbe(rq2, p)
					sameResp = resp2 != nil && resp2 == resp1
					usedReq[rq2] = true
					hold = append(hold, rq2, resp2) // not released: the next case must not inherit them
					if sameReq && (sameResp || resp1 == nil) {
						break
					}
				}
				if broken {
					continue
				}
				l.Add("reuse_evaluations", 1)
				if sameReq {
					l.Add("reuse_same_request_object", 1)
				}
				if sameResp && !respSeen {
					// whether the Response of the probe is the recycled one is up to sync.Pool (it is in about 95% of the
					// cases that released one); the evidence only records that it happened
					respSeen = true
					l.Add("reuse_same_response_object_seen", 1)
				}
				if e.Name != "nothing" && e.Name != p.Name {
					l.Add("reuse_nontrivial", 1)
				}
				l.Outcome("reuse mode=" + mode + " recycled-request=" + fmt.Sprint(sameReq))
				if d := diffObs(got, base[p.Name]); d != "" {
					found = append(found, reuseViol{d, e.Name, mode, map[string]any{"mode": mode, "earlier_layout": e.Name, "probe_layout": p.Name, "same_request_object": sameReq, "same_response_object": sameResp}, got, base[p.Name]})
					if e.Name != "everything" {
						single[d+"|"+mode] = true
					}
				}
			}
		}
	}
	for _, v := range found {
		// "everything" repeats what a single-carrier earlier layout already shows
		if v.earlier == "everything" && single[v.comp+"|"+v.mode] {
			continue
		}
		earlier := v.earlier
		if strings.HasPrefix(v.comp, "response-") {
			earlier = "any(its-response-had-status-201,body,header,two-cookies)" // the earlier REQUEST layout is irrelevant for what a recycled Response shows
		}
		l.Violate(fmt.Sprintf("reuse stale-or-lost component=%s earlier=%s mode=%s", v.comp, earlier, v.mode),
			"a request sent on a recycled Request/Response object differs (on the wire, in its visible configuration, or in the response handed back) from the same request sent on a never-used object: something of the object's earlier use survived or something of the probe was lost",
			v.cs, v.got, v.want)
	}
	_ = hold
	r.Merge(l.P)
}
