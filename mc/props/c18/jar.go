package main

// Part B: cookie jar — all operation histories up to a depth against a reference jar.

import (
	"fmt"
	"runtime"
	"runtime/debug"
	"sort"
	"strings"
	"time"

	"github.com/gofiber/fiber/v3/client"
	"github.com/gofiber/fiber/v3/verifrt/vtime"
	"github.com/valyala/fasthttp"

	"verifmc/core"
)

type jop struct {
	Kind    string // set | resp | respmulti | setkv | setkvbytes | get | getrel | dump | rerelease | intruder | tick
	Host    string
	Path    string // cookie path (set/resp) or request path (get/dump/resp request path in ReqPath)
	Key     string
	Exp     string // unlimited | past | future
	ReqPath string
}

func (o jop) String() string {
	switch o.Kind {
	case "set":
		return fmt.Sprintf("set(%s %s path=%s %s)", o.Host, o.Key, o.Path, o.Exp)
	case "resp":
		return fmt.Sprintf("resp(%s%s Set-Cookie %s path=%s %s)", o.Host, o.ReqPath, o.Key, o.Path, o.Exp)
	case "get", "dump":
		return fmt.Sprintf("%s(%s%s)", o.Kind, o.Host, o.Path)
	case "getrel":
		return fmt.Sprintf("get(%s%s)+release-returned-cookies+next-pool-user-fills-them", o.Host, o.Path)
	case "respmulti":
		return fmt.Sprintf("resp(%s%s Set-Cookie k1 path=/ future, Set-Cookie k2 path=/x future, Set-Cookie k1 path=/ future)", o.Host, o.ReqPath)
	case "setkv":
		return fmt.Sprintf("SetKeyValue(%s %s)", o.Host, o.Key)
	case "setkvbytes":
		return fmt.Sprintf("SetKeyValueBytes(%s %s)", o.Host, o.Key)
	case "tick":
		return "clock+1h"
	}
	return o.Kind
}

var past = time.Date(2000, 1, 1, 0, 0, 0, 0, time.UTC)
var future = time.Date(2100, 1, 1, 0, 0, 0, 0, time.UTC)

// the jar reads the clock through the overlay (client/cookiejar.go: time -> vtime): every history starts at jarT0, the
// op "tick" moves the clock one hour on, cookies with expiry "soon" expire half an hour after jarT0
var jarT0 = time.Date(2050, 1, 1, 0, 0, 0, 0, time.UTC)
var soon = jarT0.Add(30 * time.Minute)

func jarAlphabet(full bool) []jop {
	var ops []jop
	for _, h := range []string{"a.test", "b.test"} {
		for _, p := range []string{"/", "/x", "/x/y"} {
			for _, e := range []string{"unlimited", "past"} {
				if h == "b.test" && (p == "/x/y" || e == "past") {
					continue
				}
				ops = append(ops, jop{Kind: "set", Host: h, Key: "k1", Path: p, Exp: e})
			}
		}
	}
	ops = append(ops, jop{Kind: "set", Host: "a.test", Key: "k2", Path: "/", Exp: "future"})
	ops = append(ops, jop{Kind: "set", Host: "a.test:8080", Key: "k1", Path: "/", Exp: "unlimited"})
	for _, p := range []string{"/", "/x"} {
		for _, e := range []string{"future", "past"} {
			ops = append(ops, jop{Kind: "resp", Host: "a.test", ReqPath: "/x", Key: "k1", Path: p, Exp: e})
		}
	}
	ops = append(ops, jop{Kind: "resp", Host: "b.test", ReqPath: "/", Key: "k1", Path: "/", Exp: "unlimited"})
	gets := [][2]string{{"a.test", "/"}, {"a.test", "/x"}, {"a.test", "/x/y"}, {"a.test", "/xy"}, {"b.test", "/x"}, {"a.test:8080", "/x"}}
	for _, g := range gets {
		ops = append(ops, jop{Kind: "get", Host: g[0], Path: g[1]})
	}
	ops = append(ops, jop{Kind: "dump", Host: "a.test", Path: "/x/y"}, jop{Kind: "dump", Host: "b.test", Path: "/"})
	ops = append(ops, jop{Kind: "rerelease"}, jop{Kind: "intruder"})
	if full {
		ops = append(ops, jarExtension()...)
	}
	return ops
}

// jarExtension: the letters added by the clause-coverage audit - entry points, response shapes, ways a server expires
// a cookie, time passing, and a caller that releases what Get returned (documented as safe).
func jarExtension() []jop {
	return []jop{
		{Kind: "resp", Host: "a.test:8080", ReqPath: "/x", Key: "k1", Path: "/", Exp: "future"}, // response from a host with a port
		{Kind: "resp", Host: "a.test", ReqPath: "/x", Key: "k1", Path: "/", Exp: "maxage0"},     // deletion through Max-Age=0
		{Kind: "resp", Host: "a.test", ReqPath: "/x", Key: "k1", Path: "", Exp: "unlimited"},    // Set-Cookie without a path attribute
		{Kind: "respmulti", Host: "a.test", ReqPath: "/x"},                                      // several Set-Cookie lines, one key twice
		{Kind: "setkv", Host: "a.test", Key: "k1"},
		{Kind: "setkvbytes", Host: "b.test:8080", Key: "k1"},
		{Kind: "getrel", Host: "a.test", Path: "/x"},
		{Kind: "set", Host: "a.test", Key: "k2", Path: "/", Exp: "soon"},
		{Kind: "resp", Host: "a.test", ReqPath: "/x", Key: "k1", Path: "/", Exp: "soon"},
		{Kind: "resp", Host: "a.test", ReqPath: "/x", Key: "k1", Path: "/", Exp: "maxage1800"}, // lifetime through Max-Age: over after the tick
		{Kind: "tick"},
	}
}

func isJarExtension(o jop) bool {
	for _, x := range jarExtension() {
		if x == o {
			return true
		}
	}
	return false
}

// jarRT answers every request with the configured Set-Cookie lines and records the Cookie header it saw.
type jarRT struct {
	setCookie []string
	sawCookie string
}

func (t *jarRT) RoundTrip(_ *fasthttp.HostClient, req *fasthttp.Request, resp *fasthttp.Response) (bool, error) {
	t.sawCookie = string(req.Header.Peek("Cookie"))
	resp.Reset()
	resp.SetStatusCode(200)
	for _, sc := range t.setCookie {
		resp.Header.Add("Set-Cookie", sc)
	}
	return false, nil
}

var jarTransport = &jarRT{}
var jarFH = &fasthttp.Client{Transport: jarTransport}

type mcookie struct {
	Host, Key, Path, Value string
	Expired                bool
	Soon                   bool   // expires half an hour after the start of the history
	By                     string // how it was expired ("" = Expires in the past, "max-age-0")
	Ambiguous              bool   // another cookie of the same host+key with a different path was stored: identity rules unspecified
}

func hostOnly(h string) string {
	if i := strings.IndexByte(h, ':'); i >= 0 {
		return h[:i]
	}
	return h
}

func strictPathMatch(cookiePath, reqPath string) bool {
	if cookiePath == "" || cookiePath == "/" {
		return true
	}
	if !strings.HasPrefix(reqPath, cookiePath) {
		return false
	}
	return len(reqPath) == len(cookiePath) || strings.HasSuffix(cookiePath, "/") || reqPath[len(cookiePath)] == '/'
}

// jarSigSuffix qualifies signatures of the judged run of one history (set by enumerateJar): violations that only
// occur because the caller released the cookies Get returned are told apart from those the history shows anyway.
var jarSigSuffix = map[string]string{}

type jstep struct {
	Op  string
	Got []string
}

func runJarHistory(ops []jop, l *core.Local, judge bool) (sigs []string) {
	jar := client.AcquireCookieJar()
	cl := client.NewWithClient(jarFH)
	cl.SetCookieJar(jar)
	var model []*mcookie
	var held []*fasthttp.Cookie // intruder's cookies stay alive
	n := 0
	var trace []jstep
	vtime.SetClock(jarT0)
	defer vtime.ClearClock()
	ticked := false
	// exp: "unlimited" | "future" | "past" | "soon" | "maxage0" | "maxage1800"
	store := func(host, key, path, value, exp string) {
		h := hostOnly(host)
		// a lifetime given through Max-Age counts from the moment the response is received
		expired, soonExp, by := exp == "past" || exp == "maxage0" || exp == "soon" && ticked, exp == "soon" || exp == "maxage1800", ""
		switch exp {
		case "maxage0":
			by = "max-age-0"
		case "maxage1800":
			by = "max-age-elapsed"
			if ticked {
				soonExp = false // received after the tick: alive for the rest of the history
			}
		}
		for _, m := range model {
			if m.Host == h && m.Key == key && normPath(m.Path) == normPath(path) {
				m.Value, m.Expired, m.Soon, m.By = value, expired, soonExp, by
				return
			}
		}
		// identity of a cookie is (host, key, path): cookies of one key with different paths coexist
		model = append(model, &mcookie{Host: h, Key: key, Path: path, Value: value, Expired: expired, Soon: soonExp, By: by})
	}
	setCookieLine := func(key, v, path, exp string) string {
		sc := key + "=" + v
		if path != "" {
			sc += "; path=" + path
		}
		switch exp {
		case "past":
			sc += "; expires=Sat, 01 Jan 2000 00:00:00 GMT"
		case "future":
			sc += "; expires=Fri, 01 Jan 2100 00:00:00 GMT"
		case "soon":
			sc += "; expires=Sat, 01 Jan 2050 00:30:00 GMT"
		case "maxage0":
			sc += "; Max-Age=0"
		case "maxage1800":
			sc += "; Max-Age=1800"
		}
		return sc
	}
	respond := func(host, reqPath string, lines []string) {
		jarTransport.setCookie = lines
		resp, err := cl.R().Get("http://" + host + reqPath)
		jarTransport.setCookie = nil
		if err == nil {
			resp.Close()
		}
	}
	jarGet := func(op jop, st *jstep, release bool) [][3]string {
		uri := fasthttp.AcquireURI()
		_ = uri.Parse(nil, []byte("http://"+op.Host+op.Path))
		var got [][3]string
		cs := jar.Get(uri)
		for _, c := range cs {
			got = append(got, [3]string{string(c.Key()), string(c.Value()), string(c.Path())})
			st.Got = append(st.Got, string(c.Key())+"="+string(c.Value())+";path="+string(c.Path()))
		}
		if release {
			// "The CookieJar keeps its own copies of cookies, so it is safe to release the returned cookies after use."
			// Release + the next user of fasthttp's cookie pool acquiring and filling the object, played without going
			// through the pool (ReleaseCookie = Reset + Put; the pool is LIFO): the process-wide pool stays untouched,
			// so nothing of this history can reach a later one.
			for _, c := range cs {
				c.Reset()
				c.SetKey("intruder")
				c.SetValue("secret")
				c.SetPath("/")
			}
		}
		fasthttp.ReleaseURI(uri)
		return got
	}
	viol := func(i int, sig, what string, got any) {
		sigs = append(sigs, sig)
		if !judge {
			return
		}
		if jarSigSuffix[sig] != "" {
			// one root cause (Get hands out the jar's own objects), many symptoms: one signature per lookup kind
			kind, _, _ := strings.Cut(sig, "-")
			sig, what = "lookup-wrong-after-caller-released-returned-cookies kind="+kind, "after the caller released the cookies a Get returned (documented as safe: the jar keeps its own copies) a later lookup loses a stored cookie or hands out an empty / foreign / duplicate one; the same history with plain lookups is correct"
		}
		var names []string
		for _, o := range ops[:i+1] {
			names = append(names, o.String())
		}
		var mm []mcookie
		for _, m := range model {
			mm = append(mm, *m)
		}
		l.Violate(sig, what, map[string]any{"ops": names, "trace": trace, "model": mm}, got, nil)
	}
	check := func(i int, kind, host, reqPath string, got [][3]string) {
		h := hostOnly(host)
		seen := map[string]int{}
		for _, g := range got { // g = key, value, path
			seen[g[0]+"\x00"+g[2]]++
			var match *mcookie
			for _, m := range model {
				if m.Host == h && m.Key == g[0] && m.Value == g[1] {
					match = m
				}
			}
			if match == nil {
				cls := "never-stored-for-this-host"
				for _, m := range model {
					if m.Key == g[0] && m.Value == g[1] {
						cls = "stored-for-another-host"
					}
				}
				if g[0] == "intruder" {
					cls = "cookie-object-owned-by-someone-else"
				}
				for _, m := range model {
					if m.Host == h && m.Key == g[0] && m.Value != g[1] && !m.Ambiguous {
						cls = "superseded-value"
					}
				}
				viol(i, kind+"-returned-foreign-cookie class="+cls, "the jar returned a cookie that is not stored for this host", g)
				continue
			}
			if match.Expired {
				viol(i, kind+"-returned-expired-cookie"+expiredBy(match), "the jar returned a cookie that is expired / was deleted by the server", g)
			}
			if kind == "get" && !strings.HasPrefix(reqPath, match.Path) && match.Path != "" {
				viol(i, kind+"-returned-non-matching-path", "the jar returned a cookie whose path is not a prefix of the request path", g)
			}
		}
		if kind == "get" {
			for k, c := range seen {
				if c > 1 {
					viol(i, "get-returned-cookie-twice", "the jar returned the same cookie more than once", k)
				}
			}
		}
		for _, m := range model {
			if m.Host != h || m.Expired || m.Ambiguous || !strictPathMatch(m.Path, reqPath) {
				continue
			}
			found := false
			for _, g := range got {
				if g[0] == m.Key && g[1] == m.Value {
					found = true
				}
			}
			if !found {
				cls := "same-host"
				if host != h {
					cls = "host-with-port"
				}
				viol(i, kind+"-missing-stored-cookie class="+cls+" cookie-path="+pathClass(m.Path, reqPath), "a live cookie stored for this host whose path matches was not returned", *m)
			}
		}
	}
	for i, op := range ops {
		st := jstep{Op: op.String()}
		switch op.Kind {
		case "set":
			n++
			c := fasthttp.AcquireCookie()
			c.SetKey(op.Key)
			v := fmt.Sprintf("v%d", n)
			c.SetValue(v)
			c.SetPath(op.Path)
			switch op.Exp {
			case "past":
				c.SetExpire(past)
			case "future":
				c.SetExpire(future)
			case "soon":
				c.SetExpire(soon)
			}
			uri := fasthttp.AcquireURI()
			_ = uri.Parse(nil, []byte("http://"+op.Host+"/"))
			jar.Set(uri, c)
			fasthttp.ReleaseURI(uri)
			fasthttp.ReleaseCookie(c)
			store(op.Host, op.Key, op.Path, v, op.Exp)
		case "setkv", "setkvbytes":
			n++
			v := fmt.Sprintf("v%d", n)
			if op.Kind == "setkv" {
				jar.SetKeyValue(op.Host, op.Key, v)
			} else {
				jar.SetKeyValueBytes(op.Host, []byte(op.Key), []byte(v))
			}
			store(op.Host, op.Key, "", v, "unlimited")
		case "resp":
			n++
			v := fmt.Sprintf("v%d", n)
			respond(op.Host, op.ReqPath, []string{setCookieLine(op.Key, v, op.Path, op.Exp)})
			store(op.Host, op.Key, op.Path, v, op.Exp)
		case "respmulti":
			n += 3
			va, vb, vc := fmt.Sprintf("v%d", n-2), fmt.Sprintf("v%d", n-1), fmt.Sprintf("v%d", n)
			respond(op.Host, op.ReqPath, []string{setCookieLine("k1", va, "/", "future"), setCookieLine("k2", vb, "/x", "future"), setCookieLine("k1", vc, "/", "future")})
			store(op.Host, "k1", "/", va, "future")
			store(op.Host, "k2", "/x", vb, "future")
			store(op.Host, "k1", "/", vc, "future")
		case "tick":
			ticked = true
			vtime.SetClock(jarT0.Add(time.Hour))
			for _, m := range model {
				if m.Soon {
					m.Expired = true
				}
			}
		case "get", "getrel":
			got := jarGet(op, &st, op.Kind == "getrel")
			trace = append(trace, st)
			check(i, "get", op.Host, op.Path, got)
			l.Outcome(fmt.Sprintf("get returned %d", len(got)))
			continue
		case "dump":
			jarTransport.sawCookie = ""
			resp, err := cl.R().Get("http://" + op.Host + op.Path)
			if err == nil {
				resp.Close()
			}
			var got [][3]string
			for _, kv := range strings.Split(jarTransport.sawCookie, "; ") {
				if k, v, ok := strings.Cut(kv, "="); ok {
					got = append(got, [3]string{k, v, ""})
					st.Got = append(st.Got, kv)
				}
			}
			trace = append(trace, st)
			// the wire carries key=value only; cookies with equal keys collapse, so only foreign/expired/missing-by-key is judged
			checkDump(i, op, got, model, viol)
			l.Outcome(fmt.Sprintf("dump sent %d", len(got)))
			continue
		case "rerelease":
			client.ReleaseCookieJar(jar)
			jar = client.AcquireCookieJar()
			cl.SetCookieJar(jar)
			model = nil
		case "intruder":
			c := fasthttp.AcquireCookie()
			c.SetKey("intruder")
			c.SetValue("secret")
			c.SetPath("/")
			held = append(held, c)
		}
		trace = append(trace, st)
	}
	_ = held
	client.ReleaseCookieJar(jar)
	return sigs
}

// expiredBy qualifies the signature of an expired cookie that was handed out: nothing for an Expires date in the past
// at the time it was stored (the case the earlier rounds know), the way of expiry otherwise.
func expiredBy(m *mcookie) string {
	switch {
	case m.By != "":
		return " expired-by=" + m.By
	case m.Soon:
		return " expired-by=clock-passing-expires"
	}
	return ""
}

func normPath(p string) string {
	if p == "" {
		return "/"
	}
	return p
}

func pathClass(cookiePath, reqPath string) string {
	switch {
	case cookiePath == "/" || cookiePath == "":
		return "root"
	case cookiePath == reqPath:
		return "equal"
	}
	return "proper-prefix"
}

func checkDump(i int, op jop, got [][3]string, model []*mcookie, viol func(int, string, string, any)) {
	h := hostOnly(op.Host)
	for _, g := range got {
		ok := false
		for _, m := range model {
			if m.Host == h && m.Key == g[0] && m.Value == g[1] {
				ok = true
				if m.Expired {
					viol(i, "dump-sent-expired-cookie"+expiredBy(m), "an expired / server-deleted cookie was sent on the wire", g)
				}
				if !strings.HasPrefix(op.Path, m.Path) {
					viol(i, "dump-sent-non-matching-path", "a cookie whose path is not a prefix of the request path was sent on the wire", g)
				}
			}
		}
		if !ok {
			cls := "never-stored-for-this-host"
			for _, m := range model {
				if m.Key == g[0] && m.Value == g[1] {
					cls = "stored-for-another-host"
				}
			}
			if g[0] == "intruder" {
				cls = "cookie-object-owned-by-someone-else"
			}
			viol(i, "dump-sent-foreign-cookie class="+cls, "a cookie not stored for this host was sent on the wire", g)
		}
	}
	for _, m := range model {
		if m.Host != h || m.Expired || m.Ambiguous || !strictPathMatch(m.Path, op.Path) {
			continue
		}
		found := false
		for _, g := range got {
			if g[0] == m.Key {
				found = true
			}
		}
		if !found {
			viol(i, "dump-missing-stored-cookie cookie-path="+pathClass(m.Path, op.Path), "a live matching cookie was not sent on the wire", *m)
		}
	}
}

// enumerateJar runs every history of the given depth over alpha that ends in a lookup (skip != nil: except those it
// rejects).
func enumerateJar(r *core.Run, depth int, alpha []jop, skip func([]jop) bool) {
	debug.SetGCPercent(-1)
	l := core.NewLocal()
	n := len(alpha)
	total := 1
	for i := 0; i < depth; i++ {
		total *= n
	}
	ops := make([]jop, depth)
	gated := map[string]int{}
	done := 0
	const gateQuota = 12
	for h := 0; h < total; h++ {
		if !r.Shard(h) {
			continue
		}
		x := h
		last := 0
		for i := 0; i < depth; i++ {
			ops[i] = alpha[x%n]
			x /= n
		}
		_ = last
		if k := ops[depth-1].Kind; k != "get" && k != "dump" && k != "getrel" {
			continue // histories are judged at get/dump steps; others are prefixes
		}
		if skip != nil && skip(ops) {
			continue
		}
		sigs := runJarHistory(ops, l, false)
		l.Add("jar_histories", 1)
		l.Add("jar_transitions", int64(depth))
		hasRel, hasExt := false, false
		for _, o := range ops {
			hasRel = hasRel || o.Kind == "getrel"
			hasExt = hasExt || isJarExtension(o)
		}
		if hasExt {
			l.Add("jar_histories_ext", 1)
		}
		clear(jarSigSuffix)
		if len(sigs) > 0 && hasRel {
			// the same history with plain lookups: what it shows too is not due to the release
			plain := make([]jop, len(ops))
			for i, o := range ops {
				if o.Kind == "getrel" {
					o.Kind = "get"
				}
				plain[i] = o
			}
			also := map[string]bool{}
			for _, s := range runJarHistory(plain, l, false) {
				also[s] = true
			}
			for _, s := range sigs {
				if !also[s] {
					jarSigSuffix[s] = " only-with=caller-releases-returned-cookies"
				}
			}
		}
		if len(sigs) > 0 {
			// replay gate: the same history must fail the same way twice more, from flushed pools. The gate costs six
			// collections; once a set of signatures has passed it gateQuota times in this worker, further histories that
			// fail with exactly that set are judged directly (reported without the gate: never fewer reports).
			sort.Strings(sigs)
			set := strings.Join(sigs, "|") + fmt.Sprint(len(jarSigSuffix))
			if gated[set] >= gateQuota {
				l.Add("jar_judged_without_gate", 1)
				runJarHistory(ops, l, true)
				sigs = nil
			}
			for k := 0; k < 2 && sigs != nil; k++ {
				runtime.GC()
				runtime.GC()
				s2 := runJarHistory(ops, l, false)
				sort.Strings(s2)
				if strings.Join(s2, "|") != strings.Join(sigs, "|") {
					l.Add("jar_unreproduced", 1)
					sigs = nil
					break
				}
			}
			if sigs != nil {
				gated[set]++
				runtime.GC()
				runtime.GC()
				runJarHistory(ops, l, true)
			}
		}
		if done++; done%4000 == 0 {
			runtime.GC()
			runtime.GC()
			if r.Expired() {
				r.Cap("wall-clock budget reached in jar histories")
				break
			}
		}
	}
	debug.SetGCPercent(100)
	r.Merge(l.P)
}
