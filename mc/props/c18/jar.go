package main

// Part B: cookie jar — all operation histories up to a depth against a reference jar.

import (
	"fmt"
	"runtime"
	"runtime/debug"
	"sort"
	"strings"
	"time"

	"github.com/gofiber/fiber/v3/client"
	"github.com/valyala/fasthttp"

	"verifmc/core"
)

type jop struct {
	Kind    string // set | resp | get | dump | rerelease | intruder
	Host    string
	Path    string // cookie path (set/resp) or request path (get/dump/resp request path in ReqPath)
	Key     string
	Exp     string // unlimited | past | future
	ReqPath string
}

func (o jop) String() string {
	switch o.Kind {
	case "set":
		return fmt.Sprintf("set(%s %s path=%s %s)", o.Host, o.Key, o.Path, o.Exp)
	case "resp":
		return fmt.Sprintf("resp(%s%s Set-Cookie %s path=%s %s)", o.Host, o.ReqPath, o.Key, o.Path, o.Exp)
	case "get", "dump":
		return fmt.Sprintf("%s(%s%s)", o.Kind, o.Host, o.Path)
	}
	return o.Kind
}

var past = time.Date(2000, 1, 1, 0, 0, 0, 0, time.UTC)
var future = time.Date(2100, 1, 1, 0, 0, 0, 0, time.UTC)

func jarAlphabet(full bool) []jop {
	var ops []jop
	for _, h := range []string{"a.test", "b.test"} {
		for _, p := range []string{"/", "/x", "/x/y"} {
			for _, e := range []string{"unlimited", "past"} {
				if h == "b.test" && (p == "/x/y" || e == "past") {
					continue
				}
				ops = append(ops, jop{Kind: "set", Host: h, Key: "k1", Path: p, Exp: e})
			}
		}
	}
	ops = append(ops, jop{Kind: "set", Host: "a.test", Key: "k2", Path: "/", Exp: "future"})
	ops = append(ops, jop{Kind: "set", Host: "a.test:8080", Key: "k1", Path: "/", Exp: "unlimited"})
	for _, p := range []string{"/", "/x"} {
		for _, e := range []string{"future", "past"} {
			ops = append(ops, jop{Kind: "resp", Host: "a.test", ReqPath: "/x", Key: "k1", Path: p, Exp: e})
		}
	}
	ops = append(ops, jop{Kind: "resp", Host: "b.test", ReqPath: "/", Key: "k1", Path: "/", Exp: "unlimited"})
	gets := [][2]string{{"a.test", "/"}, {"a.test", "/x"}, {"a.test", "/x/y"}, {"a.test", "/xy"}, {"b.test", "/x"}, {"a.test:8080", "/x"}}
	for _, g := range gets {
		ops = append(ops, jop{Kind: "get", Host: g[0], Path: g[1]})
	}
	ops = append(ops, jop{Kind: "dump", Host: "a.test", Path: "/x/y"}, jop{Kind: "dump", Host: "b.test", Path: "/"})
	ops = append(ops, jop{Kind: "rerelease"}, jop{Kind: "intruder"})
	if full {
		ops = append(ops, jop{Kind: "set", Host: "a.test", Key: "k2", Path: "/x", Exp: "unlimited"}, jop{Kind: "get", Host: "b.test", Path: "/"})
	}
	return ops
}

// jarRT answers every request with the configured Set-Cookie lines and records the Cookie header it saw.
type jarRT struct {
	setCookie []string
	sawCookie string
}

func (t *jarRT) RoundTrip(_ *fasthttp.HostClient, req *fasthttp.Request, resp *fasthttp.Response) (bool, error) {
	t.sawCookie = string(req.Header.Peek("Cookie"))
	resp.Reset()
	resp.SetStatusCode(200)
	for _, sc := range t.setCookie {
		resp.Header.Add("Set-Cookie", sc)
	}
	return false, nil
}

var jarTransport = &jarRT{}
var jarFH = &fasthttp.Client{Transport: jarTransport}

type mcookie struct {
	Host, Key, Path, Value string
	Expired                bool
	Ambiguous              bool // another cookie of the same host+key with a different path was stored: identity rules unspecified
}

func hostOnly(h string) string {
	if i := strings.IndexByte(h, ':'); i >= 0 {
		return h[:i]
	}
	return h
}

func strictPathMatch(cookiePath, reqPath string) bool {
	if cookiePath == "" || cookiePath == "/" {
		return true
	}
	if !strings.HasPrefix(reqPath, cookiePath) {
		return false
	}
	return len(reqPath) == len(cookiePath) || strings.HasSuffix(cookiePath, "/") || reqPath[len(cookiePath)] == '/'
}

type jstep struct {
	Op  string
	Got []string
}

func runJarHistory(ops []jop, l *core.Local, judge bool) (sigs []string) {
	jar := client.AcquireCookieJar()
	cl := client.NewWithClient(jarFH)
	cl.SetCookieJar(jar)
	var model []*mcookie
	var held []*fasthttp.Cookie // intruder's cookies stay alive
	n := 0
	var trace []jstep
	store := func(host, key, path, value string, expired bool) {
		h := hostOnly(host)
		for _, m := range model {
			if m.Host == h && m.Key == key && normPath(m.Path) == normPath(path) {
				m.Value, m.Expired = value, expired
				return
			}
		}
		// identity of a cookie is (host, key, path): cookies of one key with different paths coexist
		model = append(model, &mcookie{Host: h, Key: key, Path: path, Value: value, Expired: expired})
	}
	viol := func(i int, sig, what string, got any) {
		sigs = append(sigs, sig)
		if !judge {
			return
		}
		var names []string
		for _, o := range ops[:i+1] {
			names = append(names, o.String())
		}
		var mm []mcookie
		for _, m := range model {
			mm = append(mm, *m)
		}
		l.Violate(sig, what, map[string]any{"ops": names, "trace": trace, "model": mm}, got, nil)
	}
	check := func(i int, kind, host, reqPath string, got [][3]string) {
		h := hostOnly(host)
		seen := map[string]int{}
		for _, g := range got { // g = key, value, path
			seen[g[0]+"\x00"+g[2]]++
			var match *mcookie
			for _, m := range model {
				if m.Host == h && m.Key == g[0] && m.Value == g[1] {
					match = m
				}
			}
			if match == nil {
				cls := "never-stored-for-this-host"
				for _, m := range model {
					if m.Key == g[0] && m.Value == g[1] {
						cls = "stored-for-another-host"
					}
				}
				if g[0] == "intruder" {
					cls = "cookie-object-owned-by-someone-else"
				}
				for _, m := range model {
					if m.Host == h && m.Key == g[0] && m.Value != g[1] && !m.Ambiguous {
						cls = "superseded-value"
					}
				}
				viol(i, kind+"-returned-foreign-cookie class="+cls, "the jar returned a cookie that is not stored for this host", g)
				continue
			}
			if match.Expired {
				viol(i, kind+"-returned-expired-cookie", "the jar returned a cookie that is expired / was deleted by the server", g)
			}
			if kind == "get" && !strings.HasPrefix(reqPath, match.Path) && match.Path != "" {
				viol(i, kind+"-returned-non-matching-path", "the jar returned a cookie whose path is not a prefix of the request path", g)
			}
		}
		if kind == "get" {
			for k, c := range seen {
				if c > 1 {
					viol(i, "get-returned-cookie-twice", "the jar returned the same cookie more than once", k)
				}
			}
		}
		for _, m := range model {
			if m.Host != h || m.Expired || m.Ambiguous || !strictPathMatch(m.Path, reqPath) {
				continue
			}
			found := false
			for _, g := range got {
				if g[0] == m.Key && g[1] == m.Value {
					found = true
				}
			}
			if !found {
				cls := "same-host"
				if host != h {
					cls = "host-with-port"
				}
				viol(i, kind+"-missing-stored-cookie class="+cls+" cookie-path="+pathClass(m.Path, reqPath), "a live cookie stored for this host whose path matches was not returned", *m)
			}
		}
	}
	for i, op := range ops {
		st := jstep{Op: op.String()}
		switch op.Kind {
		case "set":
			n++
			c := fasthttp.AcquireCookie()
			c.SetKey(op.Key)
			v := fmt.Sprintf("v%d", n)
			c.SetValue(v)
			c.SetPath(op.Path)
			switch op.Exp {
			case "past":
				c.SetExpire(past)
			case "future":
				c.SetExpire(future)
			}
			uri := fasthttp.AcquireURI()
			_ = uri.Parse(nil, []byte("http://"+op.Host+"/"))
			jar.Set(uri, c)
			fasthttp.ReleaseURI(uri)
			fasthttp.ReleaseCookie(c)
			store(op.Host, op.Key, op.Path, v, op.Exp == "past")
		case "resp":
			n++
			v := fmt.Sprintf("v%d", n)
			sc := fmt.Sprintf("%s=%s; path=%s", op.Key, v, op.Path)
			switch op.Exp {
			case "past":
				sc += "; expires=Sat, 01 Jan 2000 00:00:00 GMT"
			case "future":
				sc += "; expires=Fri, 01 Jan 2100 00:00:00 GMT"
			}
			jarTransport.setCookie = []string{sc}
			resp, err := cl.R().Get("http://" + op.Host + op.ReqPath)
			jarTransport.setCookie = nil
			if err == nil {
				resp.Close()
			}
			store(op.Host, op.Key, op.Path, v, op.Exp == "past")
		case "get":
			uri := fasthttp.AcquireURI()
			_ = uri.Parse(nil, []byte("http://"+op.Host+op.Path))
			var got [][3]string
			for _, c := range jar.Get(uri) {
				got = append(got, [3]string{string(c.Key()), string(c.Value()), string(c.Path())})
				st.Got = append(st.Got, string(c.Key())+"="+string(c.Value())+";path="+string(c.Path()))
			}
			fasthttp.ReleaseURI(uri)
			trace = append(trace, st)
			check(i, "get", op.Host, op.Path, got)
			l.Outcome(fmt.Sprintf("get returned %d", len(got)))
			continue
		case "dump":
			jarTransport.sawCookie = ""
			resp, err := cl.R().Get("http://" + op.Host + op.Path)
			if err == nil {
				resp.Close()
			}
			var got [][3]string
			for _, kv := range strings.Split(jarTransport.sawCookie, "; ") {
				if k, v, ok := strings.Cut(kv, "="); ok {
					got = append(got, [3]string{k, v, ""})
					st.Got = append(st.Got, kv)
				}
			}
			trace = append(trace, st)
			// the wire carries key=value only; cookies with equal keys collapse, so only foreign/expired/missing-by-key is judged
			checkDump(i, op, got, model, viol)
			l.Outcome(fmt.Sprintf("dump sent %d", len(got)))
			continue
		case "rerelease":
			client.ReleaseCookieJar(jar)
			jar = client.AcquireCookieJar()
			cl.SetCookieJar(jar)
			model = nil
		case "intruder":
			c := fasthttp.AcquireCookie()
			c.SetKey("intruder")
			c.SetValue("secret")
			c.SetPath("/")
			held = append(held, c)
		}
		trace = append(trace, st)
	}
	_ = held
	client.ReleaseCookieJar(jar)
	return sigs
}

func normPath(p string) string {
	if p == "" {
		return "/"
	}
	return p
}

func pathClass(cookiePath, reqPath string) string {
	switch {
	case cookiePath == "/" || cookiePath == "":
		return "root"
	case cookiePath == reqPath:
		return "equal"
	}
	return "proper-prefix"
}

func checkDump(i int, op jop, got [][3]string, model []*mcookie, viol func(int, string, string, any)) {
	h := hostOnly(op.Host)
	for _, g := range got {
		ok := false
		for _, m := range model {
			if m.Host == h && m.Key == g[0] && m.Value == g[1] {
				ok = true
				if m.Expired {
					viol(i, "dump-sent-expired-cookie", "an expired / server-deleted cookie was sent on the wire", g)
				}
				if !strings.HasPrefix(op.Path, m.Path) {
					viol(i, "dump-sent-non-matching-path", "a cookie whose path is not a prefix of the request path was sent on the wire", g)
				}
			}
		}
		if !ok {
			cls := "never-stored-for-this-host"
			for _, m := range model {
				if m.Key == g[0] && m.Value == g[1] {
					cls = "stored-for-another-host"
				}
			}
			if g[0] == "intruder" {
				cls = "cookie-object-owned-by-someone-else"
			}
			viol(i, "dump-sent-foreign-cookie class="+cls, "a cookie not stored for this host was sent on the wire", g)
		}
	}
	for _, m := range model {
		if m.Host != h || m.Expired || m.Ambiguous || !strictPathMatch(m.Path, op.Path) {
			continue
		}
		found := false
		for _, g := range got {
			if g[0] == m.Key {
				found = true
			}
		}
		if !found {
			viol(i, "dump-missing-stored-cookie cookie-path="+pathClass(m.Path, op.Path), "a live matching cookie was not sent on the wire", *m)
		}
	}
}

func enumerateJar(r *core.Run, depth int, alpha []jop) {
	debug.SetGCPercent(-1)
	l := core.NewLocal()
	n := len(alpha)
	total := 1
	for i := 0; i < depth; i++ {
		total *= n
	}
	ops := make([]jop, depth)
	gated := map[string]int{}
	done := 0
	const gateQuota = 12
	for h := 0; h < total; h++ {
		if !r.Shard(h) {
			continue
		}
		x := h
		last := 0
		for i := 0; i < depth; i++ {
			ops[i] = alpha[x%n]
			x /= n
		}
		_ = last
		if k := ops[depth-1].Kind; k != "get" && k != "dump" {
			continue // histories are judged at get/dump steps; others are prefixes
		}
		sigs := runJarHistory(ops, l, false)
		l.Add("jar_histories", 1)
		l.Add("jar_transitions", int64(depth))
		if len(sigs) > 0 {
			// replay gate: the same history must fail the same way twice more, from flushed pools. The gate costs six
			// collections; once a set of signatures has passed it gateQuota times in this worker, further histories that
			// fail with exactly that set are judged directly (reported without the gate: never fewer reports).
			sort.Strings(sigs)
			set := strings.Join(sigs, "|")
			if gated[set] >= gateQuota {
				l.Add("jar_judged_without_gate", 1)
				runJarHistory(ops, l, true)
				sigs = nil
			}
			for k := 0; k < 2 && sigs != nil; k++ {
				runtime.GC()
				runtime.GC()
				s2 := runJarHistory(ops, l, false)
				sort.Strings(s2)
				if strings.Join(s2, "|") != strings.Join(sigs, "|") {
					l.Add("jar_unreproduced", 1)
					sigs = nil
					break
				}
			}
			if sigs != nil {
				gated[set]++
				runtime.GC()
				runtime.GC()
				runJarHistory(ops, l, true)
			}
		}
		if done++; done%4000 == 0 {
			runtime.GC()
			runtime.GC()
			if r.Expired() {
				r.Cap("wall-clock budget reached in jar histories")
				break
			}
		}
	}
	debug.SetGCPercent(100)
	r.Merge(l.P)
}
