package main

// Part A3: environment answers of the io.Reader a file is configured with. The statement says every configured file
// arrives with its content; how the reader hands the bytes over (all at once, in short reads, with the final bytes
// together with io.EOF, with an empty read in between) is the environment's choice, so every such behaviour in a small
// menu is enumerated for every content size in a small menu, for one and for two files per request, together with form
// fields. Readers that fail (a non-EOF error) must make the request fail, not send a truncated file.

import (
	"errors"
	"fmt"
	"io"
	"strings"

	"github.com/gofiber/fiber/v3/client"

	"verifmc/core"
)

type pieceReader struct {
	data      []byte
	piece     int  // max bytes per Read (0 = everything)
	eofWith   bool // deliver the last bytes together with io.EOF
	emptyOnce bool // one (0, nil) read before the first data
	failAt    int  // >=0: return an error after this many bytes
	pos       int
	didEmpty  bool
}

var errReader = errors.New("injected reader failure")

func (r *pieceReader) Read(p []byte) (int, error) {
	if r.emptyOnce && !r.didEmpty {
		r.didEmpty = true
		return 0, nil
	}
	if r.failAt >= 0 && r.pos >= r.failAt {
		return 0, errReader
	}
	if r.pos >= len(r.data) {
		return 0, io.EOF
	}
	n := len(r.data) - r.pos
	if r.piece > 0 && n > r.piece {
		n = r.piece
	}
	if r.failAt >= 0 && r.pos+n > r.failAt {
		n = r.failAt - r.pos
	}
	if n > len(p) {
		n = len(p)
	}
	copy(p, r.data[r.pos:r.pos+n])
	r.pos += n
	if r.eofWith && r.pos >= len(r.data) {
		return n, io.EOF
	}
	return n, nil
}
func (*pieceReader) Close() error { return nil }

type readerKind struct {
	Name      string
	Piece     int
	EOFWith   bool
	EmptyOnce bool
}

var readerKinds = []readerKind{
	{"all-at-once", 0, false, false},
	{"all-at-once+eof-with-data", 0, true, false},
	{"pieces-of-1", 1, false, false},
	{"pieces-of-3", 3, false, false},
	{"pieces-of-3+eof-with-data", 3, true, false},
	{"pieces-of-1000", 1000, false, false},
	{"empty-read-first", 0, false, true},
	{"empty-read-first+pieces-of-3", 3, false, true},
}

func runReaderBehaviours(r *core.Run) {
	l := core.NewLocal()
	sizes := []int{0, 1, 2, 3, 4, 7, 999, 1000, 1001, 5000}
	if !r.Quick() {
		sizes = append(sizes, 65536, 1<<20, 1<<20+1, 3<<20)
	}
	content := func(n int, salt byte) string {
		var sb strings.Builder
		for i := 0; i < n; i++ {
			sb.WriteByte('a' + byte((i+int(salt))%26))
		}
		return sb.String()
	}
	send := func(files map[string]*pieceReader) (seen, error) {
		cl := client.NewWithClient(fidFH)
		rq := cl.R()
		for _, name := range []string{"one.txt", "two.txt"} {
			if rd, ok := files[name]; ok {
				rq.AddFileWithReader(name, rd)
			}
		}
		rq.SetFormData("f", "v")
		resp, err := rq.Post("http://srv.test/up")
		if err != nil {
			return seen{}, err
		}
		resp.Close()
		return fidTransport.last, nil
	}
	for _, k1 := range readerKinds {
		for _, n1 := range sizes {
			c1 := content(n1, 0)
			// one file
			s, err := send(map[string]*pieceReader{"one.txt": {data: []byte(c1), piece: k1.Piece, eofWith: k1.EOFWith, emptyOnce: k1.EmptyOnce, failAt: -1}})
			l.Add("reader_evaluations", 1)
			cs := map[string]any{"reader": k1.Name, "size": n1}
			switch {
			case err != nil:
				l.Violate("file-reader request-error reader="+k1.Name, "the client failed a request whose file reader behaves within the io.Reader contract", cs, err.Error(), nil)
			case s.Files["one.txt"] != c1 || !sameSet(s.Form["f"], []string{"v"}):
				kind := "content-differs"
				if len(s.Files["one.txt"]) < len(c1) {
					kind = "truncated"
				}
				l.Violate(fmt.Sprintf("file-reader %s reader=%s", kind, k1.Name), "the uploaded file (or the form field sent with it) differs from what the configured reader delivers", cs, fmt.Sprintf("%d bytes, form=%v", len(s.Files["one.txt"]), s.Form["f"]), fmt.Sprintf("%d bytes", len(c1)))
			}
			l.Outcome("file-reader " + k1.Name)
			// two files: the second reader's behaviour varies too (quick: same kind rotated)
			for j, k2 := range readerKinds {
				if r.Quick() && j != (len(k1.Name)+n1)%len(readerKinds) {
					continue
				}
				c2 := content((n1*7+5)%1003, 3)
				s, err := send(map[string]*pieceReader{
					"one.txt": {data: []byte(c1), piece: k1.Piece, eofWith: k1.EOFWith, emptyOnce: k1.EmptyOnce, failAt: -1},
					"two.txt": {data: []byte(c2), piece: k2.Piece, eofWith: k2.EOFWith, emptyOnce: k2.EmptyOnce, failAt: -1}})
				l.Add("reader_evaluations", 1)
				cs := map[string]any{"readers": []string{k1.Name, k2.Name}, "sizes": []int{n1, len(c2)}}
				if err != nil {
					l.Violate("file-reader request-error reader="+k1.Name+" files=2", "the client failed a two-file request whose readers behave within the io.Reader contract", cs, err.Error(), nil)
				} else if s.Files["one.txt"] != c1 || s.Files["two.txt"] != c2 {
					l.Violate(fmt.Sprintf("file-reader content-differs files=2 reader=%s", k1.Name), "an uploaded file differs from what its reader delivers (two files in one request)", cs,
						[]int{len(s.Files["one.txt"]), len(s.Files["two.txt"])}, []int{len(c1), len(c2)})
				}
			}
		}
		// a reader that fails after some bytes: the request must fail, the server must not see a truncated file as a success
		for _, failAt := range []int{0, 2, 1000} {
			fidTransport.last = seen{}
			_, err := send(map[string]*pieceReader{"one.txt": {data: []byte(content(2000, 1)), piece: k1.Piece, eofWith: k1.EOFWith, emptyOnce: k1.EmptyOnce, failAt: failAt}})
			l.Add("reader_evaluations", 1)
			l.Add("reader_fault_evaluations", 1)
			if err == nil {
				l.Violate("file-reader failing-reader-request-succeeded reader="+k1.Name, "the reader of a configured file failed but the request was sent and reported as successful", map[string]any{"reader": k1.Name, "fail_after_bytes": failAt}, len(fidTransport.last.Files["one.txt"]), "an error")
			}
			l.Outcome("file-reader failing")
		}
	}
	r.Merge(l.P)
}
