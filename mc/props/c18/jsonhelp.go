package main

import "encoding/json"

func jsonMarshal(v any) (string, error) {
	b, err := json.Marshal(v)
	return string(b), err
}
