// C18 — client sends what it was told; cookie jar never leaks; responses belong to their request.
package main

import (
	"fmt"
	"os"
	"time"

	"verifmc/core"
	"verifmc/schedx"
)

func main() {
	r := core.Start("C18")
	if !tinyTimeoutIsImmediate() {
		core.Fatal("harness assumption broken: context.WithTimeout(1ns) is not done on return")
	}
	scenarios := handoffScenarios()
	// quick: depth 4 over the extended alphabet; thorough: depth 5 over the base alphabet plus depth 4 over the extended one
	jarDepth, jarAlpha := 4, jarAlphabet(true)
	if !r.Quick() {
		jarDepth = 5
	}
	if only := os.Getenv("C18_ONLY"); only != "" {
		var f []schedx.Scenario
		for _, s := range scenarios {
			if s.Name == only {
				f = append(f, s)
			}
		}
		scenarios = f
	}
	if !r.IsWorker() && r.Replay == "" {
		crashed := r.SpawnWorkers(16, []string{"GOMAXPROCS=2"})
		for _, c := range crashed {
			r.Violate("worker-crashed", "a worker process died (fatal runtime error or kill)", c, nil, nil)
		}
		cov := schedx.Coverage(r, scenarios, map[string]any{
			"fidelity_evaluations": r.P.Counters["fid_evaluations"], "fidelity_nontrivial": r.P.Counters["fid_nontrivial"],
			"config_sequence_evaluations": r.P.Counters["cfgseq_evaluations"], "config_sequence_multi_call": r.P.Counters["cfgseq_multi_call"], "file_reader_evaluations": r.P.Counters["reader_evaluations"], "file_reader_fault_evaluations": r.P.Counters["reader_fault_evaluations"],
			"spelling_evaluations": r.P.Counters["spelling_evaluations"], "spelling_nontrivial": r.P.Counters["spelling_nontrivial"],
			"reuse_evaluations": r.P.Counters["reuse_evaluations"], "reuse_nontrivial": r.P.Counters["reuse_nontrivial"], "reuse_same_request_object": r.P.Counters["reuse_same_request_object"], "reuse_response_object_recycled_at_least_once": r.P.Counters["reuse_same_response_object_seen"] > 0,
			"jar_depth": jarDepth, "jar_alphabet": fmt.Sprint(jarAlpha), "jar_extension_letters": fmt.Sprint(jarExtension()), "jar_histories_with_extension_letter": r.P.Counters["jar_histories_ext"], "jar_judged_without_gate": r.P.Counters["jar_judged_without_gate"], "jar_histories": r.P.Counters["jar_histories"], "jar_unreproduced": r.P.Counters["jar_unreproduced"],
			"rule": "Part C: all interleavings (within the stated preemption / select-choice bounds) of caller threads, execFunc's worker goroutine, response arrival, transport failure and context cancellation at the scheduling points done-flag CAS/Swap, pool Get/Put (errChan, Response, Request), channel send/receive/select readiness, client mutex operations, and the round-tripper seam; oracle: every (resp, nil) carries echo(id) of its own request, errors are ErrTimeoutOrCancel only after a cancel and the injected transport error only for the failed request, no blocked goroutine, pooled response clean in the probe phase",
		})
		r.Finish(core.Evidence{Level: "model_checking", Exhaustive: true, Coverage: cov,
			Assumptions: []string{"fasthttp's connection layer is replaced by a round-tripper; timeouts are modelled as context cancellation (same <-ctx.Done() branch)", "sequential consistency; scheduling points at sync/atomic/pool/channel operations of client/{core,request,response,client}.go"}})
	}
	t0 := time.Now()
	lap := func(what string) { // dev aid: C18_TIMING=1 prints the wall time of every phase of every worker
		if os.Getenv("C18_TIMING") != "" {
			fmt.Fprintf(os.Stderr, "timing worker=%d %s %.1fs\n", r.Worker, what, time.Since(t0).Seconds())
		}
		t0 = time.Now()
	}
	if r.Worker == 0 {
		runFidelity(r) // map orders are process-global: part A runs in one worker
		seqDepth := 3
		if r.Tier == "thorough" {
			seqDepth = 4
		}
		runCfgSequences(r, seqDepth)
		runReaderBehaviours(r)
		runReuse(r)
		runSpellings(r)
		lap("fidelity")
	}
	runJarHosts(r)
	if r.Quick() {
		enumerateJar(r, jarDepth, jarAlpha, nil)
	} else {
		enumerateJar(r, jarDepth, jarAlphabet(false), nil)
		enumerateJar(r, 4, jarAlpha, func(ops []jop) bool { // histories without an extension letter are prefixes of the depth-5 ones
			for _, o := range ops {
				if isJarExtension(o) {
					return false
				}
			}
			return true
		})
	}
	lap("jar")
	schedx.RunAll(r, scenarios, 0)
	lap("handoff")
	r.FinishWorker()
}
