package main

// Jar family "host spellings": the jar's map key is derived from the host text of a URL by three different functions
// (Set/SetByHost, the response parser, the lookup). The history family uses two names and one port; here EVERY ordered
// pair of a generated set of host spellings - names, names that are prefixes / suffixes of each other, IPv4 literals,
// bracketed IPv6 literals that agree up to their last group, each with and without a port - is played as
// store-under-h1 / look-up-for-h2 on a fresh jar, for every entry point (Set, SetKeyValue, a response's Set-Cookie)
// and both ways of looking up (Get, the Cookie header of the next request):
//
//	identity(h1) != identity(h2)  -> nothing may come back ("never a cookie stored for another host")
//	identity(h1) == identity(h2)  -> the cookie comes back (a port is not part of the host)
//
// identity = the host text without its port (brackets of an IPv6 literal kept), compared case-insensitively.

import (
	"fmt"
	"strings"

	"github.com/gofiber/fiber/v3/client"
	"github.com/valyala/fasthttp"

	"verifmc/core"
)

func jarHostSpellings() []string {
	bases := []string{"a.test", "b.test", "a.test.evil", "xa.test", "a.tes", "10.0.0.1", "10.0.0.11", "[2001:db8::1]", "[2001:db8::2]", "[2001:db8::12]", "[::1]", "[2001:db8::]"}
	var out []string
	for _, b := range bases {
		out = append(out, b, b+":8080")
	}
	return append(out, "a.test:80", "[2001:db8::1]:80")
}

func hostIdentity(h string) string {
	if strings.HasPrefix(h, "[") {
		if i := strings.IndexByte(h, ']'); i >= 0 {
			return strings.ToLower(h[:i+1])
		}
	}
	if i := strings.LastIndexByte(h, ':'); i >= 0 {
		h = h[:i]
	}
	return strings.ToLower(h)
}

func hostClass(h string) string {
	c := "name"
	switch {
	case strings.HasPrefix(h, "["):
		c = "ipv6"
	case h[0] >= '0' && h[0] <= '9':
		c = "ipv4"
	}
	if hostIdentity(h) != strings.ToLower(h) {
		c += "+port"
	}
	return c
}

func runJarHosts(r *core.Run) {
	hosts := jarHostSpellings()
	l := core.NewLocal()
	for _, entry := range []string{"set", "setkv", "resp"} {
		for _, look := range []string{"get", "wire"} {
			for _, h1 := range hosts {
				for _, h2 := range hosts {
					jar := client.AcquireCookieJar()
					cl := client.NewWithClient(jarFH)
					cl.SetCookieJar(jar)
					switch entry {
					case "set":
						c := fasthttp.AcquireCookie()
						c.SetKey("k1")
						c.SetValue("v1")
						c.SetPath("/")
						uri := fasthttp.AcquireURI()
						_ = uri.Parse(nil, []byte("http://"+h1+"/"))
						jar.Set(uri, c)
						fasthttp.ReleaseURI(uri)
						fasthttp.ReleaseCookie(c)
					case "setkv":
						jar.SetKeyValue(h1, "k1", "v1")
					case "resp":
						jarTransport.setCookie = []string{"k1=v1; path=/"}
						if resp, err := cl.R().Get("http://" + h1 + "/x"); err == nil {
							resp.Close()
						}
						jarTransport.setCookie = nil
					}
					var got []string
					if look == "get" {
						uri := fasthttp.AcquireURI()
						_ = uri.Parse(nil, []byte("http://"+h2+"/x"))
						for _, c := range jar.Get(uri) {
							got = append(got, string(c.Key())+"="+string(c.Value()))
						}
						fasthttp.ReleaseURI(uri)
					} else {
						jarTransport.sawCookie = ""
						if resp, err := cl.R().Get("http://" + h2 + "/x"); err == nil {
							resp.Close()
						}
						if jarTransport.sawCookie != "" {
							got = strings.Split(jarTransport.sawCookie, "; ")
						}
					}
					client.ReleaseCookieJar(jar)
					l.Add("jar_host_pairs", 1)
					same := hostIdentity(h1) == hostIdentity(h2)
					cs := map[string]any{"stored_for": h1, "entry_point": entry, "looked_up_for": h2, "lookup": look}
					switch {
					case !same && len(got) > 0:
						l.Add("jar_host_pairs_nontrivial", 1)
						l.Violate(fmt.Sprintf("hosts %s-returned-foreign-cookie stored-for=%s asked-for=%s", look, hostClass(h1), hostClass(h2)),
							"the jar returned / sent a cookie that was stored for another host", cs, got, "nothing")
					case same && (len(got) != 1 || got[0] != "k1=v1"):
						l.Add("jar_host_pairs_nontrivial", 1)
						l.Violate(fmt.Sprintf("hosts %s-missing-stored-cookie stored-for=%s asked-for=%s entry=%s", look, hostClass(h1), hostClass(h2), entry),
							"a live cookie stored for this host (a port is not part of the host) was not returned exactly once", cs, got, "k1=v1")
					case same:
						l.Add("jar_host_pairs_nontrivial", 1)
					}
					l.Outcome(fmt.Sprintf("hosts same-host=%v returned=%d", same, len(got)))
				}
			}
		}
	}
	r.Merge(l.P)
}
