package main

// Part A2: configuration CALL SEQUENCES. The fidelity product of fidelity.go configures every carrier with a single
// call; the statement ("sends what it was told") also covers what several calls on the same container add up to.
// Every sequence of <= seqDepth configuration calls over a small alphabet (Add / Set / AddMany / SetMany / Del on two
// keys, three values) is applied to one container — request-level or client-level headers, query parameters, form
// fields (multi-valued) and cookies, path parameters (single-valued) — and the request on the wire is compared with
// a reference ordered multimap: Add appends a value, Set replaces all values of the key by one, Del removes the key.

import (
	"fmt"
	"sort"
	"strings"

	"github.com/gofiber/fiber/v3/client"
	"github.com/gofiber/fiber/v3/verifrt"

	"verifmc/core"
)

type cfgOp struct {
	Name string
	Kind string              // add | set | addmany | setmany | del
	K    string              // for add/set/del
	V    string              // for add/set
	Many map[string][]string // for addmany (values in order) / setmany (one value per key)
}

var cfgOpsMulti = []cfgOp{
	{Name: "Add(K,a)", Kind: "add", K: "K", V: "a"},
	{Name: "Add(K,b)", Kind: "add", K: "K", V: "b"},
	{Name: "Add(L,a)", Kind: "add", K: "L", V: "a"},
	{Name: "Set(K,a)", Kind: "set", K: "K", V: "a"},
	{Name: "Set(K,c)", Kind: "set", K: "K", V: "c"},
	{Name: "AddMany{K:[b,c]}", Kind: "addmany", Many: map[string][]string{"K": {"b", "c"}}},
	{Name: "AddMany{K:[a],L:[b]}", Kind: "addmany", Many: map[string][]string{"K": {"a"}, "L": {"b"}}},
	{Name: "SetMany{K:c}", Kind: "setmany", Many: map[string][]string{"K": {"c"}}},
	{Name: "SetMany{K:a,L:c}", Kind: "setmany", Many: map[string][]string{"K": {"a"}, "L": {"c"}}},
	{Name: "Del(K)", Kind: "del", K: "K"},
	// the *WithStruct spelling: every exported field replaces the values of its key (slices: one value per element)
	{Name: "Struct{K:c,L:[a,b]}", Kind: "struct", Many: map[string][]string{"K": {"c"}, "L": {"a", "b"}}},
	{Name: "Struct{K:'',L:[]}", Kind: "struct", Many: map[string][]string{"K": {""}, "L": {}}},
}

// struct spellings of the two struct ops above (tags of every container that has a *WithStruct setter)
type spellMulti struct {
	K string   `param:"k" form:"k"`
	L []string `param:"l" form:"l"`
}

type spellSingle struct {
	K string `cookie:"k" path:"k"`
	L string `cookie:"l" path:"l"`
}

func multiStruct(op cfgOp) any {
	v := spellMulti{K: op.Many["K"][0], L: append([]string(nil), op.Many["L"]...)}
	if len(op.Many["L"]) == 0 {
		return &v // the pointer form is accepted too
	}
	return v
}

func singleStruct(op cfgOp) any {
	v := spellSingle{K: op.Many["K"][0], L: op.Many["L"][0]}
	if v.L == "" {
		return &v
	}
	return v
}

var cfgOpsSingle = []cfgOp{
	{Name: "Set(K,a)", Kind: "set", K: "K", V: "a"},
	{Name: "Set(K,c)", Kind: "set", K: "K", V: "c"},
	{Name: "Set(L,b)", Kind: "set", K: "L", V: "b"},
	{Name: "SetMany{K:c}", Kind: "setmany", Many: map[string][]string{"K": {"c"}}},
	{Name: "SetMany{K:a,L:c}", Kind: "setmany", Many: map[string][]string{"K": {"a"}, "L": {"c"}}},
	{Name: "Del(K)", Kind: "del", K: "K"},
	{Name: "Del(K,L)", Kind: "del", K: "K,L"},
	{Name: "Struct{K:c,L:a}", Kind: "struct", Many: map[string][]string{"K": {"c"}, "L": {"a"}}},
	{Name: "Struct{K:b,L:''}", Kind: "struct", Many: map[string][]string{"K": {"b"}, "L": {""}}},
	{Name: "Reset()", Kind: "reset"},
}

// a container: how one op is applied, whether the op kind exists for it, and how the wire is read back
type cfgContainer struct {
	Name                string
	Multi               bool
	Key                 func(k string) string // spelling of the abstract key K / L in this container
	HasDel              bool
	HasStruct, HasReset bool
	Apply               func(cl *client.Client, rq *client.Request, op cfgOp, key func(string) string)
	Read                func(s seen, key string) []string
	URL                 string
}

func one(m map[string][]string, key func(string) string) map[string]string {
	out := map[string]string{}
	for k, v := range m {
		out[key(k)] = v[0]
	}
	return out
}

func many(m map[string][]string, key func(string) string) map[string][]string {
	out := map[string][]string{}
	for k, v := range m {
		out[key(k)] = append([]string{}, v...)
	}
	return out
}

func keys(k string, key func(string) string) []string {
	var out []string
	for _, x := range strings.Split(k, ",") {
		out = append(out, key(x))
	}
	return out
}

func cfgContainers() []cfgContainer {
	hdr := func(k string) string { return "X-" + k }
	low := func(k string) string { return strings.ToLower(k) }
	return []cfgContainer{
		{Name: "request-header", Multi: true, Key: hdr, URL: "http://srv.test/p",
			Apply: func(_ *client.Client, rq *client.Request, op cfgOp, key func(string) string) {
				switch op.Kind {
				case "add":
					rq.AddHeader(key(op.K), op.V)
				case "set":
					rq.SetHeader(key(op.K), op.V)
				case "addmany":
					rq.AddHeaders(many(op.Many, key))
				case "setmany":
					rq.SetHeaders(one(op.Many, key))
				}
			}, Read: func(s seen, key string) []string { return s.Headers[key] }},
		{Name: "client-header", Multi: true, Key: hdr, URL: "http://srv.test/p",
			Apply: func(cl *client.Client, _ *client.Request, op cfgOp, key func(string) string) {
				switch op.Kind {
				case "add":
					cl.AddHeader(key(op.K), op.V)
				case "set":
					cl.SetHeader(key(op.K), op.V)
				case "addmany":
					cl.AddHeaders(many(op.Many, key))
				case "setmany":
					cl.SetHeaders(one(op.Many, key))
				}
			}, Read: func(s seen, key string) []string { return s.Headers[key] }},
		{Name: "request-param", Multi: true, Key: low, HasDel: true, HasStruct: true, URL: "http://srv.test/p",
			Apply: func(_ *client.Client, rq *client.Request, op cfgOp, key func(string) string) {
				switch op.Kind {
				case "add":
					rq.AddParam(key(op.K), op.V)
				case "set":
					rq.SetParam(key(op.K), op.V)
				case "addmany":
					rq.AddParams(many(op.Many, key))
				case "setmany":
					rq.SetParams(one(op.Many, key))
				case "del":
					rq.DelParams(keys(op.K, key)...)
				case "struct":
					rq.SetParamsWithStruct(multiStruct(op))
				}
			}, Read: func(s seen, key string) []string { return s.Query[key] }},
		{Name: "client-param", Multi: true, Key: low, HasDel: true, HasStruct: true, URL: "http://srv.test/p",
			Apply: func(cl *client.Client, _ *client.Request, op cfgOp, key func(string) string) {
				switch op.Kind {
				case "add":
					cl.AddParam(key(op.K), op.V)
				case "set":
					cl.SetParam(key(op.K), op.V)
				case "addmany":
					cl.AddParams(many(op.Many, key))
				case "setmany":
					cl.SetParams(one(op.Many, key))
				case "del":
					cl.DelParams(keys(op.K, key)...)
				case "struct":
					cl.SetParamsWithStruct(multiStruct(op))
				}
			}, Read: func(s seen, key string) []string { return s.Query[key] }},
		{Name: "request-form", Multi: true, Key: low, HasDel: true, HasStruct: true, URL: "http://srv.test/p",
			Apply: func(_ *client.Client, rq *client.Request, op cfgOp, key func(string) string) {
				switch op.Kind {
				case "add":
					rq.AddFormData(key(op.K), op.V)
				case "set":
					rq.SetFormData(key(op.K), op.V)
				case "addmany":
					rq.AddFormDataWithMap(many(op.Many, key))
				case "setmany":
					rq.SetFormDataWithMap(one(op.Many, key))
				case "del":
					rq.DelFormData(keys(op.K, key)...)
				case "struct":
					rq.SetFormDataWithStruct(multiStruct(op))
				}
			}, Read: func(s seen, key string) []string { return s.Form[key] }},
		{Name: "request-cookie", Key: low, HasDel: true, HasStruct: true, URL: "http://srv.test/p",
			Apply: func(_ *client.Client, rq *client.Request, op cfgOp, key func(string) string) {
				switch op.Kind {
				case "set":
					rq.SetCookie(key(op.K), op.V)
				case "setmany":
					rq.SetCookies(one(op.Many, key))
				case "del":
					rq.DelCookies(keys(op.K, key)...)
				case "struct":
					rq.SetCookiesWithStruct(singleStruct(op))
				}
			}, Read: func(s seen, key string) []string {
				if v, ok := s.Cookies[key]; ok {
					return []string{v}
				}
				return nil
			}},
		{Name: "client-cookie", Key: low, HasDel: true, HasStruct: true, URL: "http://srv.test/p",
			Apply: func(cl *client.Client, _ *client.Request, op cfgOp, key func(string) string) {
				switch op.Kind {
				case "set":
					cl.SetCookie(key(op.K), op.V)
				case "setmany":
					cl.SetCookies(one(op.Many, key))
				case "del":
					cl.DelCookies(keys(op.K, key)...)
				case "struct":
					cl.SetCookiesWithStruct(singleStruct(op))
				}
			}, Read: func(s seen, key string) []string {
				if v, ok := s.Cookies[key]; ok {
					return []string{v}
				}
				return nil
			}},
		{Name: "request-path-param", Key: low, HasDel: true, HasStruct: true, HasReset: true, URL: "http://srv.test/p/:k/:l/end",
			Apply: func(_ *client.Client, rq *client.Request, op cfgOp, key func(string) string) {
				switch op.Kind {
				case "set":
					rq.SetPathParam(key(op.K), op.V)
				case "setmany":
					rq.SetPathParams(one(op.Many, key))
				case "del":
					rq.DelPathParams(keys(op.K, key)...)
				case "struct":
					rq.SetPathParamsWithStruct(singleStruct(op))
				case "reset":
					rq.ResetPathParams()
				}
			}, Read: readPathParam},
		{Name: "client-path-param", Key: low, HasDel: true, HasStruct: true, URL: "http://srv.test/p/:k/:l/end",
			Apply: func(cl *client.Client, _ *client.Request, op cfgOp, key func(string) string) {
				switch op.Kind {
				case "set":
					cl.SetPathParam(key(op.K), op.V)
				case "setmany":
					cl.SetPathParams(one(op.Many, key))
				case "del":
					cl.DelPathParams(keys(op.K, key)...)
				case "struct":
					cl.SetPathParamsWithStruct(singleStruct(op))
				}
			}, Read: readPathParam},
	}
}

// readPathParam reads the value substituted for :k / :l in /p/:k/:l/end (nil: the placeholder is still there)
func readPathParam(s seen, key string) []string {
	segs := strings.Split(s.Path, "/")
	if len(segs) != 5 || segs[1] != "p" || segs[4] != "end" {
		return []string{"<path shape changed: " + s.Path + ">"}
	}
	v := segs[2]
	if key == "l" {
		v = segs[3]
	}
	if v == ":"+key {
		return nil
	}
	return []string{v}
}

// reference: ordered multimap
func cfgModel(ops []cfgOp, multi bool) map[string][]string {
	m := map[string][]string{}
	for _, op := range ops {
		switch op.Kind {
		case "add":
			m[op.K] = append(m[op.K], op.V)
		case "set":
			m[op.K] = []string{op.V}
		case "addmany":
			for k, vs := range op.Many {
				m[k] = append(m[k], vs...)
			}
		case "setmany":
			for k, vs := range op.Many {
				m[k] = []string{vs[0]}
			}
		case "del":
			for _, k := range strings.Split(op.K, ",") {
				delete(m, k)
			}
		case "struct":
			for k, vs := range op.Many {
				delete(m, k)
				if len(vs) > 0 {
					m[k] = append([]string{}, vs...)
				}
			}
		case "reset":
			m = map[string][]string{}
		}
	}
	return m
}

func opNames(ops []cfgOp) []string {
	var out []string
	for _, o := range ops {
		out = append(out, o.Name)
	}
	return out
}

// shape of a sequence for the signature: the kinds of the calls that touch key K, in order
func seqShape(ops []cfgOp) string {
	var out []string
	for _, o := range ops {
		out = append(out, o.Kind)
	}
	return strings.Join(out, ">")
}

// lastTouch classifies a sequence for the signature: the kind of the last call that touched the key and how many
// values the key held (in the reference) before that call.
func lastTouch(ops []cfgOp, k string) string {
	kind, before := "none", 0
	for i, op := range ops {
		touches := false
		switch op.Kind {
		case "add", "set":
			touches = op.K == k
		case "addmany", "setmany", "struct":
			_, touches = op.Many[k]
		case "reset":
			touches = true
		case "del":
			for _, x := range strings.Split(op.K, ",") {
				touches = touches || x == k
			}
		}
		if touches {
			kind, before = op.Kind, len(cfgModel(ops[:i], true)[k])
		}
	}
	n := fmt.Sprint(before)
	if before >= 2 {
		n = "2+"
	}
	return "last-call-on-key=" + kind + " values-before=" + n
}

func runCfgSequences(r *core.Run, depth int) {
	l := core.NewLocal()
	for _, ct := range cfgContainers() {
		alpha := cfgOpsSingle
		if ct.Multi {
			alpha = cfgOpsMulti
		}
		var usable []cfgOp
		for _, op := range alpha {
			if op.Kind == "del" && !ct.HasDel || op.Kind == "struct" && !ct.HasStruct || op.Kind == "reset" && !ct.HasReset {
				continue
			}
			usable = append(usable, op)
		}
		var rec func(prefix []cfgOp)
		rec = func(prefix []cfgOp) {
			if len(prefix) > 0 {
				od := &odometer{}
				for {
					od.pos = 0
					verifrt.SetEnvChooser(od.choose)
					cl := client.NewWithClient(fidFH)
					rq := cl.R()
					for _, op := range prefix {
						ct.Apply(cl, rq, op, ct.Key)
					}
					resp, err := rq.Get(ct.URL)
					verifrt.SetEnvChooser(nil)
					l.Add("cfgseq_evaluations", 1)
					if len(prefix) > 1 {
						l.Add("cfgseq_multi_call", 1)
					}
					if err != nil {
						l.Violate("fidelity-sequence request-error container="+ct.Name, "the client failed a request configured by a sequence of calls", opNames(prefix), err.Error(), nil)
						break
					}
					resp.Close()
					s := fidTransport.last
					want := cfgModel(prefix, ct.Multi)
					for _, k := range []string{"K", "L"} {
						got := ct.Read(s, ct.Key(k))
						if !sameSet(got, want[k]) {
							kind := "wrong-values"
							switch {
							case len(got) > len(want[k]):
								kind = "stale-or-extra-value"
							case len(got) < len(want[k]):
								kind = "value-lost"
							}
							g := append([]string{}, got...)
							sort.Strings(g)
							l.Violate(fmt.Sprintf("fidelity-sequence %s container=%s %s", kind, ct.Name, lastTouch(prefix, k)),
								"after this sequence of configuration calls the values on the wire for a key differ from what the calls add up to (Add appends, Set replaces, Del removes)",
								map[string]any{"container": ct.Name, "calls": opNames(prefix), "key": ct.Key(k), "map_order": append([]int{}, od.choices...)}, g, want[k])
						}
					}
					l.Outcome("fidelity-sequence " + ct.Name + " depth=" + fmt.Sprint(len(prefix)))
					if !od.next() {
						break
					}
				}
			}
			if len(prefix) == depth {
				return
			}
			for _, op := range usable {
				rec(append(append([]cfgOp{}, prefix...), op))
			}
		}
		rec(nil)
	}
	r.Merge(l.P)
}
