package main

// Part A5: other spellings of the same configuration. The request-level part of a configuration can be given through
// the Config struct of client.Get/Post/... (axios style) instead of setters, and scalar / slice values through the
// *WithStruct setters with fields of every supported kind. For every carrier of Config x every value of the fidelity
// alphabet x {no client-level value, a different client-level value for the same key} the request on the wire must
// carry the configured values with the documented precedence, exactly as for the setter spelling.

import (
	"bytes"
	"fmt"
	"io"
	"net/url"
	"strings"

	"github.com/gofiber/fiber/v3/client"
	"github.com/gofiber/fiber/v3/verifrt"

	"verifmc/core"
)

type spellKinds struct {
	S     string   `param:"s" form:"s"`
	N     int      `param:"n" form:"n"`
	U     uint8    `param:"u" form:"u"`
	B     bool     `param:"b" form:"b"`
	Ss    []string `param:"ss" form:"ss"`
	Ns    [2]int   `param:"ns" form:"ns"`
	Plain string   // no tag: the field name is the key
	lower string   //nolint:unused // unexported: never sent
}

// the single-valued carriers (cookies, path parameters) get scalar fields only; four fields keep the number of map
// iteration orders of the cookie / path-parameter map (all enumerated) at 24
type spellKindsSingle struct {
	S     string `cookie:"s" path:"s"`
	N     int64  `cookie:"n" path:"n"`
	B     bool   `cookie:"b" path:"b"`
	Plain string
	lower string //nolint:unused // unexported: never sent
}

func runSpellings(r *core.Run) {
	l := core.NewLocal()
	eval := func(comp, lvl, vc, vr string, send func(cl *client.Client) (*client.Response, error), expect func(s seen) (string, bool)) {
		od := &odometer{}
		var first *seen
		cs := fidCase{comp, lvl, vc, vr}
		for {
			od.pos = 0
			verifrt.SetEnvChooser(od.choose)
			cl := client.NewWithClient(fidFH)
			resp, err := send(cl)
			verifrt.SetEnvChooser(nil)
			l.Add("spelling_evaluations", 1)
			if err != nil {
				l.Violate("fidelity request-error component="+comp+" value-class="+valClass(vc+vr), "the client refused or failed a request with this configuration", cs, err.Error(), nil)
				return
			}
			resp.Close()
			s := fidTransport.last
			if first == nil {
				c := s
				first = &c
			} else if core.Key(s) != core.Key(*first) {
				l.Violate("fidelity nondeterministic component="+comp, "the request on the wire depends on map iteration order inside the client", map[string]any{"case": cs, "order": append([]int{}, od.choices...)}, s, *first)
			}
			if what, ok := expect(s); !ok {
				l.Violate(fmt.Sprintf("fidelity wrong component=%s level=%s value-class=%s", comp, lvl, valClass(vc+"|"+vr)), what, cs, s, nil)
			}
			l.Outcome("fidelity " + comp + " " + lvl)
			if vc != "" || vr != "" {
				l.Add("spelling_nontrivial", 1)
			}
			if !od.next() {
				return
			}
		}
	}
	const u = "http://srv.test/p"
	for _, lvl := range []string{"request", "both"} {
		for _, vr := range fidValues {
			for _, vc := range fidValues {
				if lvl == "request" && vc != fidValues[0] || lvl == "both" && vc == vr {
					continue
				}
				vr, vc := vr, vc
				both := lvl == "both"
				want := []string{vr}
				if both {
					want = []string{vc, vr}
				}
				eval("config-header", lvl, vc, vr, func(cl *client.Client) (*client.Response, error) {
					if both {
						cl.SetHeader("X-T", vc)
					}
					return cl.Get(u, client.Config{Header: map[string]string{"X-T": vr, "X-U": "u"}})
				}, func(s seen) (string, bool) {
					return "header values on the wire differ from the configured ones (Config.Header)", sameSet(s.Headers["X-T"], want) && sameSet(s.Headers["X-U"], []string{"u"})
				})
				eval("config-query", lvl, vc, vr, func(cl *client.Client) (*client.Response, error) {
					if both {
						cl.SetParam("q", vc)
					}
					return cl.Get(u, client.Config{Param: map[string]string{"q": vr, "r": "1"}})
				}, func(s seen) (string, bool) {
					return "query parameters on the wire differ from the configured ones (Config.Param)", sameSet(s.Query["q"], want) && sameSet(s.Query["r"], []string{"1"})
				})
				if vr != "" {
					eval("config-user-agent", lvl, vc, vr, func(cl *client.Client) (*client.Response, error) {
						if both {
							cl.SetUserAgent(vc)
						}
						return cl.Get(u, client.Config{UserAgent: vr})
					}, func(s seen) (string, bool) {
						return "User-Agent is not the request-level one (Config.UserAgent)", s.UA == vr
					})
					eval("config-referer", lvl, vc, vr, func(cl *client.Client) (*client.Response, error) {
						if both {
							cl.SetReferer(vc)
						}
						return cl.Get(u, client.Config{Referer: vr})
					}, func(s seen) (string, bool) {
						return "Referer is not the request-level one (Config.Referer)", s.Ref == vr
					})
				}
				if cookieOctets(vc) && cookieOctets(vr) && vr != "" {
					eval("config-cookie", lvl, vc, vr, func(cl *client.Client) (*client.Response, error) {
						if both {
							cl.SetCookie("ck", vc)
						}
						cl.SetCookie("client-only", "c")
						return cl.Get(u, client.Config{Cookie: map[string]string{"ck": vr, "other": "o"}})
					}, func(s seen) (string, bool) {
						return "cookies on the wire differ from the configured ones (Config.Cookie)", s.Cookies["ck"] == vr && s.Cookies["other"] == "o" && s.Cookies["client-only"] == "c"
					})
				}
				if vr != "" && !strings.Contains(vr, "%") {
					eval("config-path-param", lvl, vc, vr, func(cl *client.Client) (*client.Response, error) {
						if both {
							cl.SetPathParam("id", vc)
						}
						cl.SetPathParam("cid", "C")
						return cl.Get("http://srv.test/u/:id/:cid/end", client.Config{PathParam: map[string]string{"id": vr}})
					}, func(s seen) (string, bool) {
						dec, err := url.PathUnescape(s.Path)
						wantPath := "/u/" + vr + "/C/end"
						return "the path does not carry the request-level path parameter (Config.PathParam)", (s.Path == wantPath || err == nil && dec == wantPath) && len(s.Query) == 0
					})
				}
				if !both {
					eval("config-form", lvl, vc, vr, func(cl *client.Client) (*client.Response, error) {
						return cl.Post(u, client.Config{FormData: map[string]string{"f": vr, "g": "1"}})
					}, func(s seen) (string, bool) {
						return "form fields differ from the configured ones (Config.FormData)", s.Method == "POST" && sameSet(s.Form["f"], []string{vr}) && sameSet(s.Form["g"], []string{"1"})
					})
					eval("config-json-body", lvl, vc, vr, func(cl *client.Client) (*client.Response, error) {
						return cl.Put(u, client.Config{Body: map[string]string{"k": vr}})
					}, func(s seen) (string, bool) {
						want, _ := jsonMarshal(map[string]string{"k": vr})
						return "JSON body differs from the marshalled value (Config.Body)", s.Method == "PUT" && s.Body == want && strings.HasPrefix(s.CT, "application/json")
					})
					eval("config-file", lvl, vc, vr, func(cl *client.Client) (*client.Response, error) {
						f1 := client.AcquireFile(client.SetFileName("up.txt"), client.SetFileFieldName("field-a"), client.SetFileReader(io.NopCloser(bytes.NewReader([]byte(vr)))))
						f2 := client.AcquireFile(client.SetFileName("second.txt"), client.SetFileReader(io.NopCloser(bytes.NewReader([]byte("2"+vr)))))
						return cl.Post(u, client.Config{File: []*client.File{f1, f2}})
					}, func(s seen) (string, bool) {
						return "uploaded files differ from the configured ones (Config.File)", s.Files["up.txt"] == vr && s.Files["second.txt"] == "2"+vr && len(s.Files) == 2
					})
				}
			}
		}
	}
	// struct fields of every supported kind, through every *WithStruct setter, value and pointer form
	kinds := spellKinds{S: "a b", N: -7, U: 200, B: true, Ss: []string{"x", "", "y&z"}, Ns: [2]int{3, 4}, Plain: "p"}
	wantMulti := map[string][]string{"s": {"a b"}, "n": {"-7"}, "u": {"200"}, "b": {"true"}, "ss": {"x", "", "y&z"}, "ns": {"3", "4"}, "Plain": {"p"}}
	for _, ptr := range []bool{false, true} {
		var v any = kinds
		form := "value"
		if ptr {
			k2 := kinds
			v, form = &k2, "pointer"
		}
		multi := func(comp string, send func(cl *client.Client) (*client.Response, error), read func(s seen) map[string][]string) {
			eval(comp, form, "", "kinds", send, func(s seen) (string, bool) {
				got := read(s)
				for k, w := range wantMulti {
					if !sameSet(got[k], w) {
						return "a struct field of a supported kind does not arrive as its textual value under its key (" + k + ")", false
					}
				}
				_, leaked := got["lower"]
				return "an unexported struct field was sent", !leaked
			})
		}
		multi("struct-kinds request-param", func(cl *client.Client) (*client.Response, error) {
			return cl.R().AddParam("s", "old").AddParam("ss", "old").SetParamsWithStruct(v).Get(u)
		}, func(s seen) map[string][]string { return s.Query })
		multi("struct-kinds client-param", func(cl *client.Client) (*client.Response, error) {
			cl.AddParam("s", "old").AddParam("ss", "old").SetParamsWithStruct(v)
			return cl.R().Get(u)
		}, func(s seen) map[string][]string { return s.Query })
		multi("struct-kinds request-form", func(cl *client.Client) (*client.Response, error) {
			return cl.R().AddFormData("s", "old").AddFormData("ss", "old").SetFormDataWithStruct(v).Post(u)
		}, func(s seen) map[string][]string { return s.Form })
		single := func(comp string, send func(cl *client.Client) (*client.Response, error), read func(s seen) map[string]string) {
			eval(comp, form, "", "kinds", send, func(s seen) (string, bool) {
				got := read(s)
				for k, w := range map[string]string{"s": "ab", "n": "-7", "b": "true", "Plain": "p"} {
					if got[k] != w {
						return "a struct field of a supported kind does not arrive as its textual value under its key (" + k + ")", false
					}
				}
				return "", true
			})
		}
		kc := spellKindsSingle{S: "ab", N: -7, B: true, Plain: "p"}
		var vc any = kc
		if ptr {
			vc = &kc
		}
		single("struct-kinds request-cookie", func(cl *client.Client) (*client.Response, error) {
			return cl.R().SetCookie("s", "old").SetCookiesWithStruct(vc).Get(u)
		}, func(s seen) map[string]string { return s.Cookies })
		single("struct-kinds client-cookie", func(cl *client.Client) (*client.Response, error) {
			cl.SetCookie("s", "old").SetCookiesWithStruct(vc)
			return cl.R().Get(u)
		}, func(s seen) map[string]string { return s.Cookies })
		pathRead := func(s seen) map[string]string {
			segs := strings.Split(s.Path, "/")
			out := map[string]string{}
			for i, k := range []string{"s", "n", "b", "Plain"} {
				if i+1 < len(segs) {
					out[k] = segs[i+1]
				}
			}
			return out
		}
		const pu = "http://srv.test/:s/:n/:b/:Plain"
		single("struct-kinds request-path-param", func(cl *client.Client) (*client.Response, error) {
			return cl.R().SetPathParam("s", "old").SetPathParamsWithStruct(vc).Get(pu)
		}, pathRead)
		single("struct-kinds client-path-param", func(cl *client.Client) (*client.Response, error) {
			cl.SetPathParam("s", "old").SetPathParamsWithStruct(vc)
			return cl.R().Get(pu)
		}, pathRead)
	}
	r.Merge(l.P)
}
