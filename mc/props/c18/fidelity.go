package main

// Part A: request fidelity — what is configured on the client and the request arrives at the
// server, with the documented precedence, and is a deterministic function of the configuration
// (map iteration orders in the client are owned through the overlay and enumerated).

import (
	"bytes"
	"encoding/xml"
	"fmt"
	"io"
	"net/url"
	"os"
	"path/filepath"
	"sort"
	"strings"

	"github.com/gofiber/fiber/v3/client"
	"github.com/gofiber/fiber/v3/verifrt"
	"github.com/valyala/fasthttp"

	"verifmc/core"
)

var fidValues = []string{"", "a", "a b", "a&b", "a=b", "%2F", "ü", "a;b", ":id", strings.Repeat("z", 300)}

type seen struct {
	Method  string
	Path    string // raw path as sent
	Query   map[string][]string
	Headers map[string][]string
	Cookies map[string]string
	UA, Ref string
	Body    string
	CT      string
	Form    map[string][]string
	Files   map[string]string
}

type fidXML struct {
	K string `xml:"k"`
}

type fidRT struct{ last seen }

func (t *fidRT) RoundTrip(_ *fasthttp.HostClient, req *fasthttp.Request, resp *fasthttp.Response) (bool, error) {
	s := seen{Method: string(req.Header.Method()), Path: string(req.URI().PathOriginal()), Query: map[string][]string{}, Headers: map[string][]string{},
		Cookies: map[string]string{}, UA: string(req.Header.UserAgent()), Ref: string(req.Header.Referer()), Body: string(req.Body()), CT: string(req.Header.ContentType()),
		Form: map[string][]string{}, Files: map[string]string{}}
	req.URI().QueryArgs().VisitAll(func(k, v []byte) { s.Query[string(k)] = append(s.Query[string(k)], string(v)) })
	req.Header.VisitAll(func(k, v []byte) {
		if string(k) != "Cookie" { // cookie ORDER in the header is not part of the configuration; cookies are compared as a map
			s.Headers[string(k)] = append(s.Headers[string(k)], string(v))
		}
	})
	req.Header.VisitAllCookie(func(k, v []byte) { s.Cookies[string(k)] = string(v) })
	if strings.HasPrefix(s.CT, "application/x-www-form-urlencoded") {
		req.PostArgs().VisitAll(func(k, v []byte) { s.Form[string(k)] = append(s.Form[string(k)], string(v)) })
	}
	if strings.HasPrefix(s.CT, "multipart/form-data") {
		if mf, err := req.MultipartForm(); err == nil {
			for k, v := range mf.Value {
				s.Form[k] = append(s.Form[k], v...)
			}
			for _, fhs := range mf.File {
				for _, fh := range fhs {
					f, err := fh.Open()
					if err == nil {
						b, _ := io.ReadAll(f)
						_ = f.Close()
						s.Files[fh.Filename] = string(b)
					}
				}
			}
		}
	}
	t.last = s
	resp.Reset()
	resp.SetStatusCode(200)
	return false, nil
}

var fidTransport = &fidRT{}
var fidFH = &fasthttp.Client{Transport: fidTransport}

// permutation driver for verifrt.MapOrder: odometer over successive choices
type odometer struct {
	choices []int
	arity   []int
	pos     int
}

func (o *odometer) choose(_ string, n int, _ bool, _ string) int {
	if o.pos == len(o.choices) {
		o.choices = append(o.choices, 0)
		o.arity = append(o.arity, n)
	}
	c := o.choices[o.pos]
	o.arity[o.pos] = n
	o.pos++
	if c >= n {
		c = 0
	}
	return c
}

// next advances to the next combination; false when exhausted
func (o *odometer) next() bool {
	for i := len(o.choices) - 1; i >= 0; i-- {
		if o.choices[i]+1 < o.arity[i] {
			o.choices[i]++
			o.choices = o.choices[:i+1]
			o.arity = o.arity[:i+1]
			return true
		}
	}
	return false
}

type fidCase struct {
	Component string
	Level     string // client | request | both
	VC, VR    string
}

func sameSet(a, b []string) bool {
	x, y := append([]string{}, a...), append([]string{}, b...)
	sort.Strings(x)
	sort.Strings(y)
	return strings.Join(x, "\x00") == strings.Join(y, "\x00")
}

func cookieOctets(v string) bool {
	for i := 0; i < len(v); i++ {
		c := v[i]
		if c <= 0x20 || c >= 0x7f || c == '"' || c == ',' || c == ';' || c == '\\' {
			return false
		}
	}
	return true
}

func valClass(v string) string {
	switch {
	case v == "":
		return "empty"
	case len(v) > 100:
		return "long"
	case strings.ContainsAny(v, "&=;"):
		return "reserved"
	case strings.Contains(v, "%"):
		return "percent"
	case strings.Contains(v, " "):
		return "space"
	case strings.Contains(v, ":"):
		return "colon"
	case v == "ü":
		return "non-ascii"
	}
	return "plain"
}

// runFidelity enumerates the fidelity product in this process (map orders are process-global).
func runFidelity(r *core.Run) {
	l := core.NewLocal()
	do := func(cs fidCase, build func(cl *client.Client, rq *client.Request) string, expect func(s seen) (string, bool)) {
		// enumerate every map iteration order the client consumes while assembling the request
		od := &odometer{}
		var first *seen
		for {
			od.pos = 0
			verifrt.SetEnvChooser(od.choose)
			cl := client.NewWithClient(fidFH)
			rq := cl.R()
			u := build(cl, rq)
			resp, err := rq.Get(u)
			verifrt.SetEnvChooser(nil)
			l.Add("fid_evaluations", 1)
			if err != nil {
				l.Violate("fidelity request-error component="+cs.Component+" value-class="+valClass(cs.VC+cs.VR), "the client refused or failed a request with this configuration", cs, err.Error(), nil)
				break
			}
			resp.Close()
			s := fidTransport.last
			if first == nil {
				c := s
				first = &c
			} else if core.Key(s) != core.Key(*first) {
				l.Violate("fidelity nondeterministic component="+cs.Component, "the request on the wire depends on map iteration order inside the client", map[string]any{"case": cs, "order": append([]int{}, od.choices...)}, s, *first)
			}
			if what, ok := expect(s); !ok {
				l.Violate(fmt.Sprintf("fidelity wrong component=%s level=%s value-class=%s", cs.Component, cs.Level, valClass(cs.VC+"|"+cs.VR)), what, cs, s, nil)
			}
			l.Outcome("fidelity " + cs.Component + " " + cs.Level)
			if cs.VC != "" || cs.VR != "" {
				l.Add("fid_nontrivial", 1)
			}
			if !od.next() {
				break
			}
		}
	}
	levels := []string{"client", "request", "both"}
	for _, lvl := range levels {
		for _, vc := range fidValues {
			for _, vr := range fidValues {
				if lvl == "client" && vr != fidValues[0] || lvl == "request" && vc != fidValues[0] {
					continue
				}
				if lvl == "both" && vc == vr {
					continue
				}
				cs := func(comp string) fidCase { return fidCase{comp, lvl, vc, vr} }
				want := func() []string {
					switch lvl {
					case "client":
						return []string{vc}
					case "request":
						return []string{vr}
					}
					return []string{vc, vr}
				}()
				// header: request-level headers are sent in addition to client-level ones
				do(cs("header"), func(cl *client.Client, rq *client.Request) string {
					if lvl != "request" {
						cl.SetHeader("X-T", vc)
					}
					if lvl != "client" {
						rq.SetHeader("X-T", vr)
					}
					return "http://srv.test/p"
				}, func(s seen) (string, bool) {
					return "header X-T values on the wire differ from the configured ones", sameSet(s.Headers["X-T"], want)
				})
				// query parameter: in addition
				do(cs("query"), func(cl *client.Client, rq *client.Request) string {
					if lvl != "request" {
						cl.SetParam("q", vc)
					}
					if lvl != "client" {
						rq.SetParam("q", vr)
					}
					return "http://srv.test/p"
				}, func(s seen) (string, bool) {
					return "query parameter q on the wire differs from the configured values", sameSet(s.Query["q"], want)
				})
				// user agent / referer: request level wins
				win := vc
				if lvl != "client" {
					win = vr
				}
				if win != "" {
					do(cs("user-agent"), func(cl *client.Client, rq *client.Request) string {
						if lvl != "request" {
							cl.SetUserAgent(vc)
						}
						if lvl != "client" {
							rq.SetUserAgent(vr)
						}
						return "http://srv.test/p"
					}, func(s seen) (string, bool) {
						return "User-Agent is not the (request-level first) configured one", s.UA == win
					})
					do(cs("referer"), func(cl *client.Client, rq *client.Request) string {
						if lvl != "request" {
							cl.SetReferer(vc)
						}
						if lvl != "client" {
							rq.SetReferer(vr)
						}
						return "http://srv.test/p"
					}, func(s seen) (string, bool) {
						return "Referer is not the (request-level first) configured one", s.Ref == win
					})
				}
				// cookie: request level wins; only cookie-octet values are in the carrier's domain
				if cookieOctets(vc) && cookieOctets(vr) && win != "" {
					do(cs("cookie"), func(cl *client.Client, rq *client.Request) string {
						if lvl != "request" {
							cl.SetCookie("ck", vc)
						}
						if lvl != "client" {
							rq.SetCookie("ck", vr)
						}
						// a second cookie exercises the client's map iteration
						rq.SetCookie("other", "o")
						return "http://srv.test/p"
					}, func(s seen) (string, bool) {
						return "cookie ck on the wire is not the (request-level first) configured value", s.Cookies["ck"] == win && s.Cookies["other"] == "o"
					})
				}
				// path parameter: request level wins; values with '%' are not judged (double decoding is unspecified)
				if win != "" && !strings.Contains(win, "%") {
					do(cs("path-param"), func(cl *client.Client, rq *client.Request) string {
						if lvl != "request" {
							cl.SetPathParam("id", vc)
						}
						if lvl != "client" {
							rq.SetPathParam("id", vr)
						}
						return "http://srv.test/u/:id/end"
					}, func(s seen) (string, bool) {
						dec, err := url.PathUnescape(s.Path)
						ok := s.Path == "/u/"+win+"/end" || (err == nil && dec == "/u/"+win+"/end")
						return "the path on the wire does not carry the configured path parameter value as one segment", ok && len(s.Query) == 0
					})
				}
			}
		}
	}
	// prefix-sharing path parameter names: every map order must give the same, correct URL
	for _, a := range []string{"A", "7"} {
		for _, b := range []string{"B", "x"} {
			cs := fidCase{"path-param-prefix-names", "request", a, b}
			do(cs, func(_ *client.Client, rq *client.Request) string {
				rq.SetPathParam("id", a).SetPathParam("idx", b).SetPathParam("i", "I")
				return "http://srv.test/u/:id/:idx/:i"
			}, func(s seen) (string, bool) {
				return "path parameters whose names share a prefix are not all substituted by their own values", s.Path == "/u/"+a+"/"+b+"/I"
			})
		}
	}
	// ... and with the names spread over the two levels in every way: a name on one level that is a proper prefix
	// of a name on the other level must not capture its placeholder (request level wins for EQUAL names only)
	for mask := 0; mask < 8; mask++ {
		mask := mask
		names := []string{"id", "idx", "i"}
		vals := []string{"A", "B", "I"}
		lv := func(k int) string {
			if mask&(1<<k) != 0 {
				return "client"
			}
			return "request"
		}
		cs := fidCase{"path-param-prefix-names-across-levels", fmt.Sprintf("id=%s,idx=%s,i=%s", lv(0), lv(1), lv(2)), "", ""}
		do(cs, func(cl *client.Client, rq *client.Request) string {
			for k, n := range names {
				if mask&(1<<k) != 0 {
					cl.SetPathParam(n, vals[k])
				} else {
					rq.SetPathParam(n, vals[k])
				}
			}
			return "http://srv.test/u/:id/:idx/:i"
		}, func(s seen) (string, bool) {
			return "path parameters whose names share a prefix and are configured on different levels are not all substituted by their own values", s.Path == "/u/A/B/I"
		})
	}
	// form fields, files and bodies (request level only)
	for _, v := range fidValues {
		v := v
		do(fidCase{"form-field", "request", "", v}, func(_ *client.Client, rq *client.Request) string {
			rq.SetFormData("f", v).AddFormData("g", "1").AddFormData("g", "2")
			return "http://srv.test/p"
		}, func(s seen) (string, bool) {
			return "form fields differ from the configured ones", sameSet(s.Form["f"], []string{v}) && sameSet(s.Form["g"], []string{"1", "2"})
		})
		do(fidCase{"file", "request", "", v}, func(_ *client.Client, rq *client.Request) string {
			rq.AddFileWithReader("up.txt", io.NopCloser(bytes.NewReader([]byte(v)))).SetFormData("f", v)
			return "http://srv.test/p"
		}, func(s seen) (string, bool) {
			c, ok := s.Files["up.txt"]
			return "uploaded file content or accompanying form field differs", ok && c == v && sameSet(s.Form["f"], []string{v})
		})
		do(fidCase{"raw-body", "request", "", v}, func(_ *client.Client, rq *client.Request) string {
			rq.SetRawBody([]byte(v))
			return "http://srv.test/p"
		}, func(s seen) (string, bool) { return "raw body differs", s.Body == v })
		do(fidCase{"json-body", "request", "", v}, func(_ *client.Client, rq *client.Request) string {
			rq.SetJSON(map[string]string{"k": v})
			return "http://srv.test/p"
		}, func(s seen) (string, bool) {
			want, _ := jsonMarshal(map[string]string{"k": v})
			return "JSON body differs from the marshalled value", s.Body == want && strings.HasPrefix(s.CT, "application/json")
		})
	}
	// a URL that brings its own query string (and fragment): its parameters are part of what was configured and the
	// client- and request-level ones are sent in addition
	for _, v := range fidValues {
		v := v
		for _, frag := range []string{"", "#frag"} {
			frag := frag
			do(fidCase{"url-own-query", "both", v, frag}, func(cl *client.Client, rq *client.Request) string {
				cl.SetParam("q", "c"+v)
				rq.SetParam("q", "r"+v).SetParam("only", v)
				return "http://srv.test/p?u=1&q=" + url.QueryEscape("u"+v) + frag
			}, func(s seen) (string, bool) {
				return "the URL's own query parameters and the configured ones do not all arrive", s.Path == "/p" && sameSet(s.Query["q"], []string{"u" + v, "c" + v, "r" + v}) && sameSet(s.Query["u"], []string{"1"}) && sameSet(s.Query["only"], []string{v}) && len(s.Query) == 3
			})
		}
	}
	// keys that need escaping (query parameters, form fields), at client and request level
	for _, k := range []string{"a b", "k&x", "k=x", "ü", "%2F", "k;x", "k+x", ""} {
		for _, v := range []string{"", "a b", "a&b=c"} {
			k, v := k, v
			if k == "" && v == "" {
				continue
			}
			do(fidCase{"query-key", "both", k, v}, func(cl *client.Client, rq *client.Request) string {
				cl.AddParam(k, v)
				rq.AddParam(k, v+"2").AddParam("plain", "1")
				return "http://srv.test/p"
			}, func(s seen) (string, bool) {
				return "a query parameter whose KEY needs escaping does not arrive under that key with its values", sameSet(s.Query[k], []string{v, v + "2"}) && sameSet(s.Query["plain"], []string{"1"}) && len(s.Query) == 2
			})
			do(fidCase{"form-key", "request", k, v}, func(_ *client.Client, rq *client.Request) string {
				rq.AddFormData(k, v).AddFormData(k, v+"2").AddFormData("plain", "1")
				return "http://srv.test/p"
			}, func(s seen) (string, bool) {
				return "a form field whose KEY needs escaping does not arrive under that key with its values", sameSet(s.Form[k], []string{v, v + "2"}) && sameSet(s.Form["plain"], []string{"1"}) && len(s.Form) == 2
			})
		}
	}
	// files given by path (the client opens them itself), as a path or as a File object with a field name; XML and
	// CBOR bodies
	if dir, err := os.MkdirTemp("", "c18-files-"); err == nil {
		defer os.RemoveAll(dir)
		for i, v := range fidValues {
			v := v
			path := filepath.Join(dir, fmt.Sprintf("up%d.txt", i))
			if os.WriteFile(path, []byte(v), 0o600) != nil {
				continue
			}
			name := filepath.Base(path)
			do(fidCase{"file-by-path", "request", "", v}, func(_ *client.Client, rq *client.Request) string {
				rq.AddFile(path).SetFormData("f", v)
				return "http://srv.test/p"
			}, func(s seen) (string, bool) {
				c, ok := s.Files[name]
				return "a file configured by its path does not arrive under its base name with the content of the file (or the form field sent with it is wrong)", ok && c == v && sameSet(s.Form["f"], []string{v}) && len(s.Files) == 1
			})
			do(fidCase{"file-object-by-path", "request", "", v}, func(_ *client.Client, rq *client.Request) string {
				rq.AddFiles(client.AcquireFile(client.SetFilePath(path), client.SetFileName("renamed.txt"), client.SetFileFieldName("fld")),
					client.AcquireFile(client.SetFileName("r.txt"), client.SetFileReader(io.NopCloser(bytes.NewReader([]byte("r"+v))))))
				return "http://srv.test/p"
			}, func(s seen) (string, bool) {
				return "File objects (one by path with a name of its own, one with a reader) do not arrive with their names and contents", s.Files["renamed.txt"] == v && s.Files["r.txt"] == "r"+v && len(s.Files) == 2
			})
		}
	}
	for _, v := range fidValues {
		v := v
		do(fidCase{"xml-body", "request", "", v}, func(_ *client.Client, rq *client.Request) string {
			rq.SetXML(fidXML{K: v})
			return "http://srv.test/p"
		}, func(s seen) (string, bool) {
			want, _ := xml.Marshal(fidXML{K: v})
			return "XML body differs from the marshalled value", s.Body == string(want) && strings.HasPrefix(s.CT, "application/xml")
		})
		do(fidCase{"cbor-body", "request", "", v}, func(cl *client.Client, rq *client.Request) string {
			rq.SetCBOR(map[string]string{"k": v})
			return "http://srv.test/p"
		}, func(s seen) (string, bool) {
			want, _ := client.New().CBORMarshal()(map[string]string{"k": v})
			return "CBOR body differs from the marshalled value", s.Body == string(want) && strings.HasPrefix(s.CT, "application/cbor")
		})
	}
	// base URL + relative URL
	do(fidCase{"base-url", "client", "http://srv.test/api", "/v1"}, func(cl *client.Client, _ *client.Request) string {
		cl.SetBaseURL("http://srv.test/api")
		return "/v1"
	}, func(s seen) (string, bool) { return "base URL + relative URL give the wrong path", s.Path == "/api/v1" })
	r.Merge(l.P)
}
