package main

// Part C: completion / timeout hand-off over pooled response and error channel.
// All interleavings of caller(s), the worker goroutine of execFunc, response arrival,
// transport failure and context cancellation, under the cooperative scheduler.

import (
	"context"
	"errors"
	"fmt"
	"sort"
	"strings"

	"github.com/gofiber/fiber/v3/client"
	"github.com/gofiber/fiber/v3/verifrt"
	"github.com/valyala/fasthttp"

	"verifmc/schedx"
	"verifmc/xplore"
)

// envState is the environment of one execution: what the "network" has decided per request id.
type envState struct {
	decided map[string]string // id -> "respond" | "fail"
}

var curEnv *envState

var errInjected = errors.New("injected transport failure")

// rt is the network-free transport: it parks until the environment has decided the fate of
// the request (identified by its X-Id header), then answers echo(id) or fails.
type rt struct{}

func (rt) RoundTrip(_ *fasthttp.HostClient, req *fasthttp.Request, resp *fasthttp.Response) (bool, error) {
	id := string(req.Header.Peek("X-Id"))
	env := curEnv
	verifrt.Point("rt.wait:"+id, env, func() bool { return env.decided[id] != "" })
	if env.decided[id] == "fail" {
		return false, errInjected
	}
	resp.Reset()
	resp.SetStatusCode(200)
	resp.Header.Set("X-Echo", id)
	resp.SetBodyString("echo(" + id + ")")
	return false, nil
}

// one fasthttp client for the whole process (its HostClient bookkeeping is not under test)
var fh = &fasthttp.Client{Transport: rt{}}

type hreq struct {
	ID     string
	Cancel bool // the environment may cancel this request's context
	Fail   bool // the environment fails it instead of responding
	After  string
}

type hparams struct {
	// Callers: each caller thread issues its requests sequentially
	Callers [][]hreq
}

type hobs struct {
	ID     string
	Err    string
	Status int
	Body   string
	Echo   string
}

func runHandoff(p hparams) func(e *schedx.Exec) *schedx.Outcome {
	return func(e *schedx.Exec) *schedx.Outcome {
		env := &envState{decided: map[string]string{}}
		curEnv = env
		var obs []hobs
		cancelled := map[string]bool{}
		probe := ""
		res := verifrt.Run(e.Chooser(), verifrt.Options{MaxSteps: 20000, StateKey: func() string { return fmt.Sprint(env.decided, cancelled, len(obs)) }}, func() {
			cl := client.NewWithClient(fh)
			cancels := map[string]context.CancelFunc{}
			ctxs := map[string]context.Context{}
			for _, c := range p.Callers {
				for _, rq := range c {
					if rq.Cancel {
						ctx, cancel := context.WithCancel(context.Background())
						ctxs[rq.ID], cancels[rq.ID] = ctx, cancel
					}
				}
			}
			// environment threads: one action each, placed anywhere by the scheduler
			for _, c := range p.Callers {
				for _, rq := range c {
					rq := rq
					verifrt.GoNamed("net:"+rq.ID, false, func() {
						verifrt.YieldOn("env.decide:"+rq.ID, env)
						if rq.Fail {
							env.decided[rq.ID] = "fail"
						} else {
							env.decided[rq.ID] = "respond"
						}
					})
					if rq.Cancel {
						verifrt.GoNamed("cancel:"+rq.ID, false, func() {
							verifrt.YieldOn("env.cancel:"+rq.ID, verifrt.ChanObj(ctxs[rq.ID].Done()))
							cancelled[rq.ID] = true
							cancels[rq.ID]()
						})
					}
				}
			}
			for ci, c := range p.Callers {
				c := c
				verifrt.GoNamed(fmt.Sprintf("caller%d", ci+1), false, func() {
					for _, rq := range c {
						r := cl.R()
						r.SetHeader("X-Id", rq.ID)
						if ctx, ok := ctxs[rq.ID]; ok {
							r.SetContext(ctx)
						}
						resp, err := r.Get("http://server.test/" + rq.ID)
						o := hobs{ID: rq.ID}
						if err != nil {
							o.Err = err.Error()
						} else {
							o.Status = resp.StatusCode()
							o.Body = string(resp.Body())
							o.Echo = strings.Clone(resp.Header("X-Echo")) // Header() aliases the pooled response buffer
							resp.Close()                                  // back to the pools, as a well-behaved caller does
						}
						verifrt.YieldOn("caller.got:"+rq.ID, &obs)
						obs = append(obs, o)
					}
				})
			}
			verifrt.Join()
			// probe phase: whatever the pools hand out next must be clean
			pr := client.AcquireResponse()
			if len(pr.Body()) != 0 || pr.StatusCode() != 200 && pr.StatusCode() != 0 {
				probe = fmt.Sprintf("pooled response not reset: status=%d body=%q", pr.StatusCode(), pr.Body())
			}
			client.ReleaseResponse(pr)
		})
		e.Res = res
		sort.Slice(obs, func(i, j int) bool { return obs[i].ID < obs[j].ID })
		out := &schedx.Outcome{Detail: map[string]any{"observations": obs, "decided": env.decided, "cancelled": cancelled, "deadlock": res.Deadlock, "blocked": res.Blocked, "panics": res.Panics}}
		viol := func(sig, what string, ob, x any) {
			out.Violations = append(out.Violations, schedx.Viol{Sig: sig, What: what, Observed: ob, Expected: x})
		}
		if len(res.Panics) > 0 {
			viol("panic "+stripThread(firstLine(res.Panics[0])), "a client goroutine panicked", res.Panics, nil)
		}
		if res.Deadlock {
			viol("deadlock blocked="+strings.Join(threadKinds(res.Blocked), ","), "a caller or worker goroutine is blocked forever (leak)", res.Blocked, nil)
		}
		if res.Horizon {
			viol("horizon", "step horizon exceeded", nil, nil)
		}
		if probe != "" && len(res.Panics) == 0 && !res.Deadlock {
			viol("pooled-response-dirty", "a response object returned to the pool was written afterwards", probe, nil)
		}
		want := map[string]hreq{}
		for _, c := range p.Callers {
			for _, rq := range c {
				want[rq.ID] = rq
			}
		}
		for _, o := range obs {
			rq := want[o.ID]
			switch {
			case o.Err == "":
				if o.Body != "echo("+o.ID+")" || o.Echo != o.ID || o.Status != 200 {
					kind := "other-requests-response"
					if o.Body == "" {
						kind = "empty-response"
					}
					viol("response-not-own kind="+kind, "a response handed back without error does not belong to the request it was returned for", o, "echo("+o.ID+")")
				}
				if rq.Fail {
					viol("failed-request-returned-response", "the transport failed but the caller got a response", o, nil)
				}
			case o.Err == client.ErrTimeoutOrCancel.Error():
				if !cancelled[o.ID] {
					viol("timeout-error-without-cancel", "ErrTimeoutOrCancel although the request was never cancelled", o, nil)
				}
			case o.Err == errInjected.Error():
				if !rq.Fail {
					viol("foreign-transport-error", "a transport error of another request was returned", o, nil)
				}
			default:
				viol("unexpected-error", "unexpected error value", o, nil)
			}
		}
		var cls []string
		for _, o := range obs {
			k := "ok"
			if o.Err != "" {
				k = "err:" + o.Err
			}
			cls = append(cls, o.ID+"="+k)
		}
		out.Class = strings.Join(cls, " ") + fmt.Sprintf(" deadlock=%v", res.Deadlock)
		out.Interesting = e.X.Spent(xplore.Sched) > 0
		return out
	}
}

func threadKinds(b []string) []string {
	var out []string
	for _, s := range b {
		// "name@op": keep the kind of thread and the op
		name, op, _ := strings.Cut(s, "@")
		if i := strings.IndexAny(name, ":0123456789"); i > 0 {
			name = name[:i]
		}
		if i := strings.Index(op, ":"); i > 0 {
			op = op[:i]
		}
		out = append(out, name+"@"+op)
	}
	sort.Strings(out)
	return out
}

func stripThread(s string) string {
	if i := strings.Index(s, ": "); i >= 0 {
		return s[i+2:]
	}
	return s
}

func firstLine(s string) string {
	if i := strings.IndexByte(s, '\n'); i >= 0 {
		s = s[:i]
	}
	if len(s) > 100 {
		s = s[:100]
	}
	return s
}

func handoffScenarios() []schedx.Scenario {
	var out []schedx.Scenario
	add := func(name string, p hparams, q, d xplore.Bounds, pruneDeep bool) {
		out = append(out, schedx.Scenario{Name: name, Params: p, Bounds: q, Deep: d, PruneQuick: true, PruneDeep: true, Whole: true, Run: runHandoff(p)})
	}
	b1, b2, b3 := xplore.Bounds{0, 1, 1, 0}, xplore.Bounds{0, 2, 1, 0}, xplore.Bounds{0, 3, 2, 0}
	add("cancel-then-next", hparams{Callers: [][]hreq{{{ID: "r1", Cancel: true}, {ID: "r2"}}}}, b2, b3, false)
	add("cancel-vs-fail-then-next", hparams{Callers: [][]hreq{{{ID: "r1", Cancel: true, Fail: true}, {ID: "r2"}}}}, b2, b3, false)
	add("two-callers-one-cancelled", hparams{Callers: [][]hreq{{{ID: "r1", Cancel: true}}, {{ID: "r2"}}}}, b1, b2, false)
	add("fail-then-next", hparams{Callers: [][]hreq{{{ID: "r1", Fail: true}, {ID: "r2"}}}}, b2, b3, false)
	add("cancel-cancel-next", hparams{Callers: [][]hreq{{{ID: "r1", Cancel: true}, {ID: "r2", Cancel: true}, {ID: "r3"}}}}, xplore.Bounds{0, 0, 1, 0}, b1, false)
	return out
}
