package main

// Part C: completion / timeout hand-off over pooled response and error channel.
// All interleavings of caller(s), the worker goroutine of execFunc, response arrival,
// transport failure and context cancellation, under the cooperative scheduler.

import (
	"context"
	"errors"
	"fmt"
	"sort"
	"strings"
	"time"

	"github.com/gofiber/fiber/v3/client"
	"github.com/gofiber/fiber/v3/verifrt"
	"github.com/valyala/fasthttp"

	"verifmc/schedx"
	"verifmc/xplore"
)

// envState is the environment of one execution: what the "network" has decided per request id.
type envState struct {
	decided    map[string]string // id -> "respond" | "fail"
	failFirst  map[string]bool   // the first attempt of this request fails at once (retry scenarios)
	failedOnce map[string]bool
	attempts   map[string]int
}

var curEnv *envState

var errInjected = errors.New("injected transport failure")

// rt is the network-free transport: it parks until the environment has decided the fate of
// the request (identified by its X-Id header), then answers echo(id) or fails.
type rt struct{}

func (rt) RoundTrip(_ *fasthttp.HostClient, req *fasthttp.Request, resp *fasthttp.Response) (bool, error) {
	id := string(req.Header.Peek("X-Id"))
	env := curEnv
	env.attempts[id]++
	if env.failFirst[id] && !env.failedOnce[id] {
		env.failedOnce[id] = true
		return false, errInjected
	}
	verifrt.Point("rt.wait:"+id, env, func() bool { return env.decided[id] != "" })
	if env.decided[id] == "fail" {
		return false, errInjected
	}
	resp.Reset()
	resp.SetStatusCode(200)
	resp.Header.Set("X-Echo", id)
	resp.SetBodyString("echo(" + id + ")")
	return false, nil
}

// one fasthttp client for the whole process (its HostClient bookkeeping is not under test)
var fh = &fasthttp.Client{Transport: rt{}}

type hreq struct {
	ID     string
	Cancel bool // the environment may cancel this request's context
	Fail   bool // the environment fails it instead of responding
	After  string
	// Timeout is the request-level timeout: "" (none), "tiny" (1ns: the deadline has passed when the context is
	// created, so its Done channel is closed deterministically — no timer involved) or "huge" (1h: never fires).
	Timeout string
	// Via tells how the request-level settings are given: "" = setters on a Request, "config" = client.Get(url, Config{...})
	Via string
	// FailFirst: the first transport attempt of this request fails at once; a retrying client tries again
	FailFirst bool
	// Late: the network decides the fate of this request only after its caller has got an answer (a server slower
	// than the timeout); only meaningful when the effective timeout is tiny.
	Late bool
}

type hparams struct {
	// Callers: each caller thread issues its requests sequentially
	Callers [][]hreq
	// ClientTimeout is the client-level timeout ("" | "tiny" | "huge")
	ClientTimeout string
	// Retry: the client has a retry configuration (3 attempts, back-off capped at 1ns so that no real time passes)
	Retry bool
}

func timeoutValue(s string) time.Duration {
	switch s {
	case "tiny":
		return time.Nanosecond
	case "huge":
		return time.Hour
	}
	return 0
}

// effectiveTimeout: the request-level timeout takes precedence over the client-level one (statement).
func effectiveTimeout(rq hreq, p hparams) string {
	if rq.Timeout != "" {
		return rq.Timeout
	}
	return p.ClientTimeout
}

// tinyTimeoutIsImmediate checks the harness assumption behind "tiny": a context with a 1ns timeout is done when
// context.WithTimeout returns (the deadline has passed by the time it is compared with the clock).
func tinyTimeoutIsImmediate() bool {
	for i := 0; i < 2000; i++ {
		ctx, cancel := context.WithTimeout(context.Background(), time.Nanosecond)
		select {
		case <-ctx.Done():
			cancel()
		default:
			cancel()
			return false
		}
	}
	return true
}

type hobs struct {
	ID     string
	Err    string
	Status int
	Body   string
	Echo   string
}

func runHandoff(p hparams) func(e *schedx.Exec) *schedx.Outcome {
	return func(e *schedx.Exec) *schedx.Outcome {
		env := &envState{decided: map[string]string{}, failFirst: map[string]bool{}, failedOnce: map[string]bool{}, attempts: map[string]int{}}
		for _, c := range p.Callers {
			for _, rq := range c {
				env.failFirst[rq.ID] = rq.FailFirst
			}
		}
		curEnv = env
		var obs []hobs
		cancelled := map[string]bool{}
		returned := map[string]bool{} // the caller of this request has its answer
		probe := ""
		res := verifrt.Run(e.Chooser(), verifrt.Options{MaxSteps: 20000, StateKey: func() string { return fmt.Sprint(env.decided, cancelled, returned, len(obs)) }}, func() {
			cl := client.NewWithClient(fh)
			if d := timeoutValue(p.ClientTimeout); d > 0 {
				cl.SetTimeout(d)
			}
			if p.Retry {
				cl.SetRetryConfig(&client.RetryConfig{InitialInterval: time.Nanosecond, MaxBackoffTime: time.Nanosecond, Multiplier: 1, MaxRetryCount: 3})
			}
			cancels := map[string]context.CancelFunc{}
			ctxs := map[string]context.Context{}
			for _, c := range p.Callers {
				for _, rq := range c {
					if rq.Cancel {
						ctx, cancel := context.WithCancel(context.Background())
						ctxs[rq.ID], cancels[rq.ID] = ctx, cancel
					}
				}
			}
			// environment threads: one action each, placed anywhere by the scheduler
			for _, c := range p.Callers {
				for _, rq := range c {
					rq := rq
					verifrt.GoNamed("net:"+rq.ID, false, func() {
						if rq.Late {
							verifrt.Point("env.decide-late:"+rq.ID, env, func() bool { return returned[rq.ID] })
						} else {
							verifrt.YieldOn("env.decide:"+rq.ID, env)
						}
						if rq.Fail {
							env.decided[rq.ID] = "fail"
						} else {
							env.decided[rq.ID] = "respond"
						}
					})
					if rq.Cancel {
						verifrt.GoNamed("cancel:"+rq.ID, false, func() {
							verifrt.YieldOn("env.cancel:"+rq.ID, verifrt.ChanObj(ctxs[rq.ID].Done()))
							cancelled[rq.ID] = true
							cancels[rq.ID]()
						})
					}
				}
			}
			for ci, c := range p.Callers {
				c := c
				verifrt.GoNamed(fmt.Sprintf("caller%d", ci+1), false, func() {
					for _, rq := range c {
						var resp *client.Response
						var err error
						if strings.HasPrefix(rq.Via, "config") {
							cfg := client.Config{Header: map[string]string{"X-Id": rq.ID}, Timeout: timeoutValue(rq.Timeout)}
							if ctx, ok := ctxs[rq.ID]; ok {
								cfg.Ctx = ctx
							}
							// the same Config may also carry a payload: the other fields must still be honoured
							switch rq.Via {
							case "config+body":
								cfg.Body = map[string]string{"k": "v"}
								resp, err = cl.Post("http://server.test/"+rq.ID, cfg)
							case "config+form":
								cfg.FormData = map[string]string{"f": "v"}
								resp, err = cl.Post("http://server.test/"+rq.ID, cfg)
							default:
								resp, err = cl.Get("http://server.test/"+rq.ID, cfg)
							}
						} else {
							r := cl.R()
							r.SetHeader("X-Id", rq.ID)
							if ctx, ok := ctxs[rq.ID]; ok {
								r.SetContext(ctx)
							}
							if d := timeoutValue(rq.Timeout); d > 0 {
								r.SetTimeout(d)
							}
							resp, err = r.Get("http://server.test/" + rq.ID)
						}
						returned[rq.ID] = true
						o := hobs{ID: rq.ID}
						if err != nil {
							o.Err = err.Error()
						} else {
							o.Status = resp.StatusCode()
							o.Body = string(resp.Body())
							o.Echo = strings.Clone(resp.Header("X-Echo")) // Header() aliases the pooled response buffer
							resp.Close()                                  // back to the pools, as a well-behaved caller does
						}
						verifrt.YieldOn("caller.got:"+rq.ID, &obs)
						obs = append(obs, o)
					}
				})
			}
			verifrt.Join()
			// probe phase: whatever the pools hand out next must be clean
			pr := client.AcquireResponse()
			if len(pr.Body()) != 0 || pr.StatusCode() != 200 && pr.StatusCode() != 0 {
				probe = fmt.Sprintf("pooled response not reset: status=%d body=%q", pr.StatusCode(), pr.Body())
			}
			client.ReleaseResponse(pr)
		})
		e.Res = res
		sort.Slice(obs, func(i, j int) bool { return obs[i].ID < obs[j].ID })
		out := &schedx.Outcome{Detail: map[string]any{"observations": obs, "decided": env.decided, "cancelled": cancelled, "deadlock": res.Deadlock, "blocked": res.Blocked, "panics": res.Panics}}
		viol := func(sig, what string, ob, x any) {
			out.Violations = append(out.Violations, schedx.Viol{Sig: sig, What: what, Observed: ob, Expected: x})
		}
		if len(res.Panics) > 0 {
			viol("panic "+stripThread(firstLine(res.Panics[0])), "a client goroutine panicked", res.Panics, nil)
		}
		if res.Deadlock {
			what := "a caller or worker goroutine is blocked forever (leak)"
			sig := "deadlock blocked=" + strings.Join(threadKinds(res.Blocked), ",")
			for _, c := range p.Callers {
				for _, rq := range c {
					if rq.Late && !returned[rq.ID] && effectiveTimeout(rq, p) == "tiny" {
						lvl := "client-level"
						if rq.Timeout == "tiny" {
							lvl = "request-level"
						}
						sig = "timeout-never-fired level=" + lvl + " via=" + viaName(rq.Via)
						what = "the configured timeout has expired and the server has not answered, but the caller is still waiting: the timeout that applies to this request was not applied"
					}
				}
			}
			viol(sig, what, res.Blocked, nil)
		}
		if res.Horizon {
			viol("horizon", "step horizon exceeded", nil, nil)
		}
		if probe != "" && len(res.Panics) == 0 && !res.Deadlock {
			viol("pooled-response-dirty", "a response object returned to the pool was written afterwards", probe, nil)
		}
		want := map[string]hreq{}
		for _, c := range p.Callers {
			for _, rq := range c {
				want[rq.ID] = rq
			}
		}
		for _, o := range obs {
			rq := want[o.ID]
			switch {
			case o.Err == "":
				if o.Body != "echo("+o.ID+")" || o.Echo != o.ID || o.Status != 200 {
					kind := "other-requests-response"
					if o.Body == "" {
						kind = "empty-response"
					}
					viol("response-not-own kind="+kind, "a response handed back without error does not belong to the request it was returned for", o, "echo("+o.ID+")")
				}
				if rq.Fail {
					viol("failed-request-returned-response", "the transport failed but the caller got a response", o, nil)
				}
			case o.Err == client.ErrTimeoutOrCancel.Error():
				switch eff := effectiveTimeout(rq, p); {
				case cancelled[o.ID] || eff == "tiny":
				case eff == "huge" && rq.Timeout == "huge" && p.ClientTimeout == "tiny":
					viol("timeout-precedence client-level-timeout-applied-over-request-level", "ErrTimeoutOrCancel for a request whose own (request-level) timeout is an hour: the shorter client-level timeout was applied although request-level timeouts take precedence", o, nil)
				default:
					viol("timeout-error-without-cancel", "ErrTimeoutOrCancel although the request was never cancelled and has no timeout that could have expired", o, nil)
				}
			case o.Err == errInjected.Error():
				switch {
				case rq.FailFirst && p.Retry && !rq.Fail:
					viol("retry-gave-up-after-first-failure", "the first attempt failed, the client is configured to retry and the second attempt would have been answered, but the caller got the transport error", o, nil)
				case !rq.Fail && !rq.FailFirst:
					viol("foreign-transport-error", "a transport error of another request was returned", o, nil)
				}
			default:
				viol("unexpected-error", "unexpected error value", o, nil)
			}
		}
		var cls []string
		for _, o := range obs {
			k := "ok"
			if o.Err != "" {
				k = "err:" + o.Err
			}
			cls = append(cls, o.ID+"="+k)
		}
		out.Class = strings.Join(cls, " ") + fmt.Sprintf(" deadlock=%v", res.Deadlock)
		out.Interesting = e.X.Spent(xplore.Sched) > 0
		return out
	}
}

func viaName(v string) string {
	if v == "" {
		return "setter"
	}
	return v
}

func threadKinds(b []string) []string {
	var out []string
	for _, s := range b {
		// "name@op": keep the kind of thread and the op
		name, op, _ := strings.Cut(s, "@")
		if i := strings.IndexAny(name, ":0123456789"); i > 0 {
			name = name[:i]
		}
		if i := strings.Index(op, ":"); i > 0 {
			op = op[:i]
		}
		out = append(out, name+"@"+op)
	}
	sort.Strings(out)
	return out
}

func stripThread(s string) string {
	if i := strings.Index(s, ": "); i >= 0 {
		return s[i+2:]
	}
	return s
}

func firstLine(s string) string {
	if i := strings.IndexByte(s, '\n'); i >= 0 {
		s = s[:i]
	}
	if len(s) > 100 {
		s = s[:100]
	}
	return s
}

func handoffScenarios() []schedx.Scenario {
	var out []schedx.Scenario
	add := func(name string, p hparams, q, d xplore.Bounds, pruneDeep bool) {
		out = append(out, schedx.Scenario{Name: name, Params: p, Bounds: q, Deep: d, PruneQuick: true, PruneDeep: true, Whole: true, Run: runHandoff(p)})
	}
	b1, b2, b3 := xplore.Bounds{0, 1, 1, 0}, xplore.Bounds{0, 2, 1, 0}, xplore.Bounds{0, 3, 2, 0}
	add("cancel-then-next", hparams{Callers: [][]hreq{{{ID: "r1", Cancel: true}, {ID: "r2"}}}}, b2, b3, false)
	add("cancel-vs-fail-then-next", hparams{Callers: [][]hreq{{{ID: "r1", Cancel: true, Fail: true}, {ID: "r2"}}}}, b2, b3, false)
	add("two-callers-one-cancelled", hparams{Callers: [][]hreq{{{ID: "r1", Cancel: true}}, {{ID: "r2"}}}}, b1, b2, false)
	add("fail-then-next", hparams{Callers: [][]hreq{{{ID: "r1", Fail: true}, {ID: "r2"}}}}, b2, b3, false)
	add("cancel-cancel-next", hparams{Callers: [][]hreq{{{ID: "r1", Cancel: true}, {ID: "r2", Cancel: true}, {ID: "r3"}}}}, xplore.Bounds{0, 0, 1, 0}, b1, false)
	// timeouts (request-level / client-level / both, given through setters or a Config; the server answers at any
	// moment or only after the caller has given up), each followed by a request on the recycled objects whose own
	// timeout must decide its fate
	for _, via := range []string{"", "config", "config+body", "config+form"} {
		n := "timeout-" + viaName(via) + "-"
		if strings.Contains(via, "+") {
			// Config carrying a payload next to the timeout: the two scenarios in which the request-level value decides
			add(n+"request-level-late-then-next", hparams{Callers: [][]hreq{{{ID: "r1", Timeout: "tiny", Via: via, Late: true}, {ID: "r2", Via: via}}}}, b1, b2, false)
			add(n+"client-level-late-then-request-level-huge", hparams{ClientTimeout: "tiny", Callers: [][]hreq{{{ID: "r1", Via: via, Late: true}, {ID: "r2", Timeout: "huge", Via: via}}}}, b1, b2, false)
			continue
		}
		add(n+"request-level-late-then-next", hparams{Callers: [][]hreq{{{ID: "r1", Timeout: "tiny", Via: via, Late: true}, {ID: "r2", Via: via}}}}, b2, b3, false)
		add(n+"request-level-vs-response-then-next", hparams{Callers: [][]hreq{{{ID: "r1", Timeout: "tiny", Via: via}, {ID: "r2", Via: via}}}}, b2, b3, false)
		add(n+"client-level-late-then-request-level-huge", hparams{ClientTimeout: "tiny", Callers: [][]hreq{{{ID: "r1", Via: via, Late: true}, {ID: "r2", Timeout: "huge", Via: via}}}}, b2, b3, false)
		add(n+"request-level-tiny-over-client-level-huge", hparams{ClientTimeout: "huge", Callers: [][]hreq{{{ID: "r1", Timeout: "tiny", Via: via, Late: true}, {ID: "r2", Via: via}}}}, b2, b3, false)
	}
	// a retrying client: the first attempt fails at once, the second is answered / cancelled / failed for good
	add("retry-first-attempt-fails-then-next", hparams{Retry: true, Callers: [][]hreq{{{ID: "r1", FailFirst: true}, {ID: "r2"}}}}, b2, b3, false)
	add("retry-cancelled-while-retrying-then-next", hparams{Retry: true, Callers: [][]hreq{{{ID: "r1", FailFirst: true, Cancel: true}, {ID: "r2"}}}}, b2, b3, false)
	add("retry-every-attempt-fails-then-next", hparams{Retry: true, Callers: [][]hreq{{{ID: "r1", FailFirst: true, Fail: true}, {ID: "r2", FailFirst: true}}}}, b1, b2, false)
	add("timeout-two-callers-one-timing-out", hparams{ClientTimeout: "tiny", Callers: [][]hreq{{{ID: "r1", Late: true}}, {{ID: "r2", Timeout: "huge"}}}}, b1, b2, false)
	return out
}
