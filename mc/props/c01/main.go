// C01 — dispatch = registration-order first match; the lookup index (3-byte buckets + cursor) is transparent.
// Exhaustive enumeration of small route tables x requests x configs x ctx kinds; the real router is
// compared with a linear reference dispatcher that uses the real per-route matcher (ref.go).
// Tables: every sequence of <=2 entries over the full alphabet; every sequence of 3 entries over the
// same-path / multi-method family (escaped/unescaped twin patterns, all multi-method registration sites,
// 1 or 5 handlers per call); thorough adds every 3-entry sequence over a sub-alphabet. Small side families (side.go)
// add dimensions the main product does not have: every method / custom RequestMethods lists, override targets that
// need normalisation and other handler behaviours, registrations after start-up, the other registration sites, and
// every table of exactly 3 and 4 entries over a reduced alphabet (what the END of a longer chain replies).
package main

import (
	"encoding/json"
	"fmt"
	"os"
	"runtime"
	"runtime/debug"
	"runtime/pprof"
	"sort"
	"strconv"
	"strings"
	"sync"
	"time"
	"unsafe"

	"github.com/gofiber/fiber/v3"
	"github.com/valyala/fasthttp"

	"verifmc/core"
	"verifmc/fx"
)

type customCtx struct {
	fiber.DefaultCtx
}

const maxLen = 4 // (4 entries: only the chain_end side family)

// uriOf gives the request URI for a raw path ("//" alone would be read as a scheme-relative URI).
func uriOf(p string) string {
	if strings.HasPrefix(p, "//") {
		return "http://example.com" + p
	}
	return p
}

// wstate is the private state of one worker goroutine.
type wstate struct {
	raw      []uint8 // handler executions of the current request: registration position<<3 | index in the chain (7 = last handler)
	trace    []uint8 // raw collapsed to registrations: one element per complete chain (see collapse)
	broken   bool    // some registration's handlers did not run as one complete in-order chain
	overflow bool
	fctx     fasthttp.RequestCtx
	reqs     [][]*fasthttp.Request               // [request-method id][reqPaths]
	h        [maxLen][nBeh]fiber.Handler         // last handler of the chain of registration pos
	pre      [maxLen][maxChain - 1]fiber.Handler // pass-through handlers in front of it (chains longer than 1)
	chain    [maxChain]fiber.Handler
	// registration -> route objects created / merged into, per method stack
	rt [maxLen][nMeth]*fiber.Route
	mg [maxLen][nMeth]*fiber.Route // the EARLIER route object into whose handler list (part of) this registration was merged, if any
	hi [maxLen][nMeth]int
	// reference results of the current (table, config), reused for both ctx kinds
	ref      [][]refResult
	refEarly [][]refResult // late-registration tables: reference of the part registered before start-up
	acc      *acc
	ident    map[unsafe.Pointer]uint8 // handler value -> its trace code (pos<<3 | index in the chain)
}

const lastInChain = 7

func (ws *wstate) enter(pos, idx uint8) bool {
	if len(ws.raw) >= maxTrace {
		ws.overflow = true
		return false
	}
	ws.raw = append(ws.raw, pos<<3|idx)
	return true
}

// mkPre makes the idx-th pass-through handler of a chain longer than one.
func (ws *wstate) mkPre(pos, idx uint8) fiber.Handler {
	return func(c fiber.Ctx) error {
		if !ws.enter(pos, idx) {
			return nil
		}
		return c.Next()
	}
}

// handlersOf gives the handler chain of entry e registered at position pos (valid until the next call).
func (ws *wstate) handlersOf(pos int, e entry) []fiber.Handler {
	n := e.chain()
	copy(ws.chain[:n-1], ws.pre[pos][:n-1])
	ws.chain[n-1] = ws.h[pos][e.beh]
	return ws.chain[:n]
}

// collapse turns the handler-level trace into the registration-level one: a complete chain (pass-throughs
// 0..n-2 in order, then the last handler) becomes one element. Anything else sets broken and is kept
// handler by handler.
func (ws *wstate) collapse(tbl []entry) {
	ws.trace, ws.broken = ws.trace[:0], false
	for i := 0; i < len(ws.raw); {
		pos := ws.raw[i] >> 3
		n := tbl[pos].chain()
		ok := i+n <= len(ws.raw)
		for j := 0; ok && j < n; j++ {
			want := pos<<3 | uint8(j)
			if j == n-1 {
				want = pos<<3 | lastInChain
			}
			ok = ws.raw[i+j] == want
		}
		ws.trace = append(ws.trace, pos)
		if ok {
			i += n
		} else {
			ws.broken = true
			i++
		}
	}
}

func (ws *wstate) mk(pos uint8, beh int) fiber.Handler {
	enter := func() bool { return ws.enter(pos, lastInChain) }
	switch beh {
	case bReply:
		return func(c fiber.Ctx) error { enter(); return c.SendString("ok") }
	case bNext:
		return func(c fiber.Ctx) error {
			if !enter() {
				return nil
			}
			return c.Next()
		}
	case bError:
		return func(c fiber.Ctx) error { enter(); return fiber.NewError(fiber.StatusForbidden) }
	}
	pt, mt := behPathTarget[beh], behMethTarget[beh]
	return func(c fiber.Ctx) error {
		if !enter() {
			return nil
		}
		if pt != "" {
			c.Path(pt)
		}
		if mt != "" {
			c.Method(mt)
		}
		return c.Next()
	}
}

func newWstate() *wstate {
	ws := &wstate{acc: newAcc(), ident: map[unsafe.Pointer]uint8{}}
	for _, name := range methUniverse {
		var row []*fasthttp.Request
		for _, p := range reqPaths {
			rq := fx.Req(name, uriOf(p))
			rq.URI() // parse once; CopyTo then copies the parsed URI
			row = append(row, rq)
		}
		ws.reqs = append(ws.reqs, row)
	}
	for pos := 0; pos < maxLen; pos++ {
		for b := 0; b < nBeh; b++ {
			ws.h[pos][b] = ws.mk(uint8(pos), b)
			ws.ident[fid(ws.h[pos][b])] = uint8(pos)<<3 | lastInChain
		}
		for j := 0; j < maxChain-1; j++ {
			ws.pre[pos][j] = ws.mkPre(uint8(pos), uint8(j))
			ws.ident[fid(ws.pre[pos][j])] = uint8(pos)<<3 | uint8(j)
		}
	}
	// fx.CallInto once: attaches the fake connection / peer to this worker's RequestCtx. Afterwards the
	// same ctx is re-used with only Request/Response reset per call (what CallInto does, minus Init2).
	fx.CallInto(&ws.fctx, func(*fasthttp.RequestCtx) {}, ws.reqs[0][0], nil, false)
	ws.ref = make([][]refResult, len(methUniverse))
	ws.refEarly = make([][]refResult, len(methUniverse))
	for i := range ws.ref {
		ws.ref[i] = make([]refResult, len(reqPaths))
		ws.refEarly[i] = make([]refResult, len(reqPaths))
	}
	return ws
}

// newApp makes an empty app of one configuration and ctx kind.
func (ws *wstate) newApp(c cfgT, custom bool) *fiber.App {
	app := fiber.New(c.fiber())
	if custom {
		app.NewCtxFunc(func(a *fiber.App) fiber.CustomCtx {
			return &customCtx{DefaultCtx: *fiber.NewDefaultCtx(a)}
		})
	}
	return app
}

// registerRange registers the entries tbl[from:to] and records which route object each registration
// produced (or was merged into) in every method stack.
func (ws *wstate) registerRange(app *fiber.App, tbl []entry, from, to int) {
	var lens, hcs [nMeth]int
	for i := from; i < to; i++ {
		e := tbl[i]
		st := app.Stack()
		for m := range st {
			lens[m] = len(st[m])
			hcs[m] = 0
			if lens[m] > 0 {
				hcs[m] = len(st[m][lens[m]-1].Handlers)
			}
		}
		register(app, e, ws.handlersOf(i, e))
		st = app.Stack()
		for m := range st {
			ws.rt[i][m], ws.hi[i][m], ws.mg[i][m] = nil, 0, nil
			if lens[m] > 0 && len(st[m]) >= lens[m] && len(st[m][lens[m]-1].Handlers) > hcs[m] {
				ws.mg[i][m] = st[m][lens[m]-1]
			}
			switch l := len(st[m]); {
			case l > lens[m]:
				if l-lens[m] > kindUnits(e.kind) {
					core.Fatal("registration %v changed stack %d by %d routes", e, m, l-lens[m])
				}
				ws.rt[i][m] = st[m][lens[m]]
			case l == lens[m] && l > 0 && len(st[m][l-1].Handlers) >= hcs[m]+e.chain():
				ws.rt[i][m], ws.hi[i][m] = st[m][l-1], hcs[m] // duplicate path: merged into the previous route object
			case l < lens[m]:
				core.Fatal("registration %v changed stack %d by %d routes", e, m, l-lens[m])
			}
		}
		for m := len(st); m < nMeth; m++ {
			ws.rt[i][m], ws.hi[i][m], ws.mg[i][m] = nil, 0, nil
		}
	}
}

// build constructs the app for one table, everything registered before start-up.
func (ws *wstate) build(tbl []entry, c cfgT, custom bool) (*fiber.App, fasthttp.RequestHandler) {
	app := ws.newApp(c, custom)
	ws.registerRange(app, tbl, 0, len(tbl))
	return app, app.Handler()
}

type observed struct {
	trace  []uint8
	raw    []uint8 // handler-level trace (aliases the worker's buffer: valid until the next call)
	status int
	allow  uint16
	badAl  string
	panicv string
}

func parseAllow(ci int, b []byte) (mask uint16, bad string) {
	if len(b) == 0 {
		return 0, ""
	}
	for _, part := range strings.Split(string(b), ",") {
		part = strings.TrimSpace(part)
		found := false
		for i, n := range mlist[ci] {
			if n == part {
				if mask&(1<<uint(i)) != 0 {
					bad = "duplicate " + part
				}
				mask |= 1 << uint(i)
				found = true
			}
		}
		if !found {
			bad = "unknown method " + part
		}
	}
	return mask, bad
}

func (ws *wstate) call(h fasthttp.RequestHandler, req *fasthttp.Request, tbl []entry, ci int) (o observed) {
	ws.raw = ws.raw[:0]
	ws.overflow = false
	defer func() {
		if rec := recover(); rec != nil {
			o.panicv = fmt.Sprint(rec)
			ws.collapse(tbl)
			o.trace, o.raw = ws.trace, ws.raw
		}
	}()
	ws.fctx.Request.Reset()
	ws.fctx.Response.Reset()
	req.CopyTo(&ws.fctx.Request)
	h(&ws.fctx)
	ws.collapse(tbl)
	o.trace, o.raw = ws.trace, ws.raw
	o.status = ws.fctx.Response.StatusCode()
	o.allow, o.badAl = parseAllow(ci, ws.fctx.Response.Header.Peek("Allow"))
	return o
}

// runTable evaluates one table under the item's configs and both ctx kinds. With it.late > 0 the last it.late
// entries are registered AFTER start-up (app.Handler(), one round of requests judged against the early part),
// followed by app.RebuildTree().
func (ws *wstate) runTable(tbl []entry, it *item, sampleIt bool) {
	early := len(tbl) - it.late
	for _, ci := range it.cfgs {
		valid := true
		for _, e := range tbl {
			valid = valid && kindValid[ci][e.kind]
		}
		if !valid {
			continue // a method the configuration's RequestMethods does not have cannot be registered
		}
		for ctxKind := 0; ctxKind < 2; ctxKind++ {
			app := ws.newApp(cfgs[ci], ctxKind == 1)
			ws.acc.apps++
			ws.registerRange(app, tbl, 0, early)
			h := app.Handler()
			if it.late > 0 {
				ws.fire(app, h, ci, ctxKind, tbl[:early], 0, it, false, ws.refEarly)
				ws.registerRange(app, tbl, early, len(tbl))
				app.RebuildTree()
			}
			ws.fire(app, h, ci, ctxKind, tbl, it.late, it, sampleIt, ws.ref)
		}
	}
}

// fire sends the item's requests to one app and judges each against the reference of tbl.
func (ws *wstate) fire(app *fiber.App, h fasthttp.RequestHandler, ci, ctxKind int, tbl []entry, late int, it *item, sampleIt bool, refs [][]refResult) {
	a := ws.acc
	specific := false
	for _, e := range tbl {
		for m := range mlist[ci] {
			if loneKey[ci][e.kind][e.pat][0][m] != 0 || loneKey[ci][e.kind][e.pat][1][m] != 0 {
				specific = true
			}
		}
	}
	for _, rm := range it.meths {
		m := stackIdx[ci][rm]
		for _, pi := range it.paths {
			if m < 0 {
				// not a method of this app: the statement is silent (fiber answers 501); only a panic is reported
				o := ws.call(h, ws.reqs[rm][pi], tbl, ci)
				a.evals++
				a.famEvals[it.fam]++
				a.unspecified++
				a.unknownMethod++
				a.outcome(o.status, len(o.trace), 0)
				if o.panicv != "" {
					a.violate("panic on a request method the app does not have", "the request panicked inside the router",
						orderKey(tbl, late, ci, ctxKind, rm, pi), func() (any, any, any) {
							return caseOf(tbl, late, ci, ctxKind, rm, pi), obsOf(&o, tbl, ci), "no panic"
						})
				}
				continue
			}
			if ctxKind == 0 {
				refs[rm][pi] = refDispatch(ci, tbl, m, int(pathCanon[ci][pi]))
			}
			ref := &refs[rm][pi]
			o := ws.call(h, ws.reqs[rm][pi], tbl, ci)
			a.evals++
			a.famEvals[it.fam]++
			if ref.n > 0 || ref.status == 405 {
				a.nontrivial++
			}
			if specific && pathHash[ci][pi] != 0 {
				a.bucketed++ // the request selects by a 3-byte key and the table has a bucket-specific route
			}
			ov := 0
			for k := 0; k < ref.n; k++ {
				ov |= int(ref.eff[k])
			}
			if ov != 0 {
				a.overrides++
			}
			if ref.n >= 2 {
				a.multiRun++
			}
			for k := 0; k < ref.n; k++ {
				if tbl[ref.trace[k]].cl != 0 {
					a.chainRun++
					break
				}
			}
			if ref.spec && ref.status == 405 {
				a.exp405++
			}
			if ref.no405 {
				a.no405++
			}
			if it.fam != famMain && famHit(it.fam, ci, tbl, late, rm, ref) {
				a.famHits[it.fam]++
			}
			ovObs := 0 // outcome classes use what was OBSERVED: status, handlers run, override handlers among them
			for _, pos := range o.trace {
				b := tbl[pos].beh
				if behPathTarget[b] != "" {
					ovObs |= 1
				}
				if behMethTarget[b] != "" {
					ovObs |= 2
				}
			}
			a.outcome(o.status, len(o.trace), ovObs)
			ok := ws.judge(app, ci, ctxKind, tbl, late, rm, pi, ref, &o)
			if sampleIt && ok && ci == 5 && ctxKind == 1 && rm == rmGET && ref.n >= 2 && ov != 0 {
				// keep the 6 candidates with the smallest mixed key: the union over all workers then contains
				// the global 6 smallest whatever the scheduling was
				sk := orderKey(tbl, late, ci, ctxKind, rm, pi) * 0x9E3779B97F4A7C15
				if len(a.samples) < 6 || sk < a.samples[len(a.samples)-1].key {
					a.samples = append(a.samples, sampleRec{sk,
						map[string]any{"case": caseOf(tbl, late, ci, ctxKind, rm, pi), "observed": obsOf(&o, tbl, ci), "expected": expOf(ref, ci)}})
					sort.Slice(a.samples, func(i, j int) bool { return a.samples[i].key < a.samples[j].key })
					if len(a.samples) > 6 {
						a.samples = a.samples[:6]
					}
				}
			}
		}
	}
}

// conforms: the observation equals the reference wherever the statement speaks.
func (ws *wstate) conforms(ref *refResult, o *observed) (ok, unspecified bool) {
	same := len(o.trace) == ref.n && o.panicv == "" && !ws.overflow && !ws.broken
	if same {
		for k := 0; k < ref.n; k++ {
			if o.trace[k] != ref.trace[k] {
				same = false
				break
			}
		}
	}
	if !same {
		return false, false
	}
	if !ref.spec {
		if ref.no405 {
			// an endpoint of the final method and path ran: "no endpoint matches" does not hold, 405 is not a reply
			// the statement allows (404 or anything else is not judged)
			return o.status != 405, false
		}
		return true, true
	}
	return o.status == ref.status && (ref.status != 405 || (o.allow == ref.allow && o.badAl == "")), false
}

// judge compares one observation with the reference; true = conforms (or unspecified).
func (ws *wstate) judge(app *fiber.App, ci, ctxKind int, tbl []entry, late, rm, pi int, ref *refResult, o *observed) bool {
	a := ws.acc
	ok, unspec := ws.conforms(ref, o)
	if unspec {
		a.unspecified++
	}
	if ok {
		return true
	}
	m := stackIdx[ci][rm]
	sig, what := ws.classify(app, ci, tbl, m, pi, ref, o)
	if strings.HasPrefix(sig, "override-") && !ws.explainedByIndexReuse(app, ci, tbl, m, pi, o) {
		// the classes above name the two known mechanisms (cursor index kept across bucket / method-stack switches,
		// handlers merged into one route object); a run they do not reproduce is another defect
		sig += " beyond-index-reuse-and-merge"
		what += " -- but the handlers that ran are NOT the ones obtained by continuing at the old numeric index in the bucket / method stack of the new path and method: another mechanism is at work"
	}
	if late > 0 || cfgs[ci].Methods != 0 {
		// the observation buffers and the registration bookkeeping belong to the app under test: keep them
		tr, raw := append([]uint8(nil), o.trace...), append([]uint8(nil), o.raw...)
		rt, hi, ovf, brk := ws.rt, ws.hi, ws.overflow, ws.broken
		if late > 0 && ws.variantConforms(tbl, 0, ci, ctxKind, rm, pi) {
			sig += " only-with=registration-after-startup"
		} else if bc := baseCfg(ci); bc != ci && ws.variantConforms(tbl, late, bc, ctxKind, rm, pi) {
			sig += " only-with=custom-request-methods"
		}
		o.trace, o.raw = tr, raw
		ws.rt, ws.hi, ws.overflow, ws.broken = rt, hi, ovf, brk
	}
	a.violate(sig, what, orderKey(tbl, late, ci, ctxKind, rm, pi), func() (any, any, any) {
		return caseOf(tbl, late, ci, ctxKind, rm, pi), obsOf(o, tbl, ci), expOf(ref, ci)
	})
	return false
}

// baseCfg: the configuration with the same routing flags and the default method list.
func baseCfg(ci int) int {
	c := cfgs[ci]
	c.Methods = 0
	for i, x := range cfgs {
		if x == c {
			return i
		}
	}
	return ci
}

// variantConforms re-runs one case on a fresh app with another registration time (late) or configuration and tells
// whether that variant conforms (false when the variant cannot be built or the method does not exist there).
func (ws *wstate) variantConforms(tbl []entry, late, ci, ctxKind, rm, pi int) bool {
	m := stackIdx[ci][rm]
	if m < 0 {
		return false
	}
	for _, e := range tbl {
		if !kindValid[ci][e.kind] {
			return false
		}
	}
	app := ws.newApp(cfgs[ci], ctxKind == 1)
	early := len(tbl) - late
	ws.registerRange(app, tbl, 0, early)
	h := app.Handler()
	if late > 0 {
		ws.registerRange(app, tbl, early, len(tbl))
		app.RebuildTree()
	}
	ref := refDispatch(ci, tbl, m, int(pathCanon[ci][pi]))
	o := ws.call(h, ws.reqs[rm][pi], tbl, ci)
	ok, _ := ws.conforms(&ref, &o)
	return ok
}

// entryID orders entries by (kind, pattern, behaviour, chain length): 5+5+4+1 bits.
func entryID(e entry) int {
	return ((int(e.kind)<<5|int(e.pat))<<4|int(e.beh))<<1 | int(e.cl)
}

// orderKey gives a total order on cases so that the example kept per signature is the same on every run
// (smallest table first, then default ctx / default config first).
// Tables of 4 entries (chain_end family) do not fit 4 x 15 bits: their entries are packed into 11 bits each
// (kind < 8, behaviour < 4), which the family's alphabet guarantees and the code below checks.
func orderKey(tbl []entry, late, ci, ctxKind, rm, pi int) uint64 {
	k := uint64(len(tbl))
	if len(tbl) == 4 {
		k <<= 1
		for _, e := range tbl {
			if e.kind >= 8 || e.beh >= 4 {
				core.Fatal("orderKey: a 4-entry table with kind %d / behaviour %d", e.kind, e.beh)
			}
			k = k<<11 | uint64(((int(e.kind)<<5|int(e.pat))<<2|int(e.beh))<<1|int(e.cl))
		}
	} else {
		for i := 0; i < 3; i++ {
			k <<= 15
			if i < len(tbl) {
				k |= uint64(entryID(tbl[i]))
			}
		}
	}
	k = k<<2 | uint64(late)
	k = k<<1 | uint64(ctxKind)
	k = k<<4 | uint64(ci)
	k = k<<4 | uint64(rm)
	k = k<<5 | uint64(pi)
	return k
}

func program(tbl []entry, late int) []string {
	var out []string
	for i, e := range tbl {
		if late > 0 && i == len(tbl)-late {
			out = append(out, "-- app.Handler(); one round of requests; the entries below are registered now, then app.RebuildTree() --")
		}
		out = append(out, fmt.Sprintf("h%d: %s", i, e.String()))
	}
	return out
}

func caseOf(tbl []entry, late, ci, ctxKind, rm, pi int) map[string]any {
	ctx := "default"
	if ctxKind == 1 {
		ctx = "custom (NewCtxFunc, struct embedding DefaultCtx)"
	}
	m := map[string]any{
		"program": program(tbl, late),
		"config":  cfgs[ci],
		"ctx":     ctx,
		"request": methUniverse[rm] + " " + reqPaths[pi],
	}
	if ml := cfgs[ci].Methods; ml != 0 {
		m["request_methods"] = methodLists[ml]
	}
	return m
}

func traceNames(t []uint8) []string {
	out := []string{}
	for _, p := range t {
		out = append(out, fmt.Sprintf("h%d", p))
	}
	return out
}

func allowNames(ci int, mask uint16) []string {
	out := []string{}
	for i, n := range mlist[ci] {
		if mask&(1<<uint(i)) != 0 {
			out = append(out, n)
		}
	}
	return out
}

func obsOf(o *observed, tbl []entry, ci int) map[string]any {
	m := map[string]any{"handlers_run": traceNames(o.trace), "status": o.status}
	for _, e := range tbl {
		if e.chain() > 1 { // h<registration>.<index in its call>
			hl := []string{}
			for _, x := range o.raw {
				idx := int(x & 7)
				if idx == lastInChain {
					idx = tbl[x>>3].chain() - 1
				}
				hl = append(hl, fmt.Sprintf("h%d.%d", x>>3, idx))
			}
			m["handler_level"] = hl
			break
		}
	}
	if o.allow != 0 || o.badAl != "" {
		m["allow"] = allowNames(ci, o.allow)
	}
	if o.badAl != "" {
		m["allow_malformed"] = o.badAl
	}
	if o.panicv != "" {
		m["panic"] = o.panicv
	}
	return m
}

func expOf(r *refResult, ci int) map[string]any {
	m := map[string]any{"handlers_run": traceNames(r.trace[:r.n])}
	switch {
	case r.reply:
		m["status"] = 200
	case r.failed:
		m["status"] = "not judged (the last handler returned an error without calling Next: the chain ends there)"
	case r.no405:
		m["status"] = "anything but 405 (an endpoint matching the final method and path ran and called Next: 'no endpoint matches' does not hold, so 405 + Allow is not the reply; 404 vs. another status is not fixed by the statement)"
	case !r.spec:
		m["status"] = "unspecified (an endpoint ran and called Next, or the only matching endpoint is registered before the override)"
	default:
		m["status"] = r.status
		if r.status == 405 {
			m["allow_set"] = allowNames(ci, r.allow)
		}
	}
	return m
}

// ---- per-worker accumulator (merged deterministically at the end) -------------------------------

type vrec struct {
	count    int64
	key      uint64
	what     string
	cs, o, e any
}

type sampleRec struct {
	key uint64
	v   any
}

type acc struct {
	samples                                                   []sampleRec
	apps, evals, nontrivial, bucketed, overrides, unspecified int64
	multiRun, chainRun, exp405, unknownMethod, no405          int64
	famEvals, famHits                                         [nFams]int64
	outc                                                      [5][6][4]int64
	viol                                                      map[string]*vrec
}

func newAcc() *acc { return &acc{viol: map[string]*vrec{}} }

func (a *acc) outcome(status, n, ov int) {
	s := 4
	switch status {
	case 200:
		s = 0
	case 404:
		s = 1
	case 405:
		s = 2
	case 0:
		s = 3
	}
	if n > 5 {
		n = 5
	}
	a.outc[s][n][ov&3]++
}

func (a *acc) violate(sig, what string, key uint64, mk func() (any, any, any)) {
	v, ok := a.viol[sig]
	if !ok {
		v = &vrec{key: ^uint64(0)}
		a.viol[sig] = v
	}
	v.count++
	if key < v.key {
		v.key, v.what = key, what
		v.cs, v.o, v.e = mk()
	}
}

// ---- enumeration ----------------------------------------------------------------------------------

// alphabetOf lists the entries over a pattern subset (single-handler registrations, every behaviour).
func alphabetOf(pats []string, kinds int) []entry {
	var ks, bs []int
	for k := 0; k < kinds; k++ {
		ks = append(ks, k)
	}
	for b := 0; b < nFullBeh; b++ {
		bs = append(bs, b)
	}
	return alphabetOver(ks, pats, bs, 1)
}

// alphabetOver lists the entries kinds x pattern subset x behaviours x the first nl chain lengths.
func alphabetOver(kinds []int, pats []string, behs []int, nl int) []entry {
	var out []entry
	for _, k := range kinds {
		for pi, p := range patterns {
			in := false
			for _, q := range pats {
				in = in || p == q
			}
			if !in {
				continue
			}
			for _, b := range behs {
				for cl := 0; cl < nl; cl++ {
					out = append(out, entry{uint8(k), uint8(pi), uint8(b), uint8(cl)})
				}
			}
		}
	}
	if len(out) != len(kinds)*len(pats)*len(behs)*nl {
		core.Fatal("alphabet over %v: a pattern is not in the pattern list", pats)
	}
	return out
}

type item struct {
	prefix []entry // fixed leading entries
	last   []entry // every choice of the final entry (nil: the table is just the prefix)
	paths  []int   // indices into reqPaths of the requests fired at each table
	meths  []int   // request-method ids fired at each table
	cfgs   []int   // indices into cfgs
	late   int     // number of trailing entries registered after start-up (0: everything before)
	fam    int     // side family the item belongs to (famMain: the main product)
}

func pathIdx(sel []string) []int {
	var out []int
	for i, p := range reqPaths {
		for _, q := range sel {
			if p == q {
				out = append(out, i)
			}
		}
	}
	if sel != nil && len(out) != len(sel) {
		core.Fatal("unknown path in %v", sel)
	}
	return out
}

func main() {
	core.SuperviseSelf("C01") // a runtime fatal error inside the code under test is a finding, not a harness error
	r := core.Start("C01")
	// Millions of short-lived apps. Every app owns a sync.Pool, and the runtime keeps pools (hence apps) reachable
	// until the second GC after their last use, so a proportional GC target (GOGC) would chase its own garbage:
	// collect on a fixed heap budget instead.
	debug.SetGCPercent(-1)
	if r.IsWorker() {
		debug.SetMemoryLimit(384 << 20)
	} else {
		debug.SetMemoryLimit(2 << 30)
	}
	buildTables()
	selfCheck()
	timing := os.Getenv("VERIF_C01_TIMING") != ""
	if timing {
		fmt.Fprintf(os.Stderr, "tables+selfcheck: %v\n", time.Since(r.Start))
	}

	if nKinds > 1<<5 || len(patterns) > 1<<5 || nBeh > 1<<4 || nLens > 2 || len(reqPaths) > 1<<5 || len(cfgs) > 1<<4 || len(methUniverse) > 1<<4 {
		core.Fatal("orderKey fields too narrow for the alphabet")
	}
	full := alphabetOf(patterns[:nFullPatterns], nFullKinds)
	sub := alphabetOf(subPatterns, kGRP) // without the group kind
	fam := alphabetOver(famKinds, famPatterns, famBehs, nLens)
	allPaths, subPaths, famPaths := pathIdx(reqPaths[:nFullReqPaths]), pathIdx(subReqPaths), pathIdx(famReqPaths)
	// the side families go first: they are small, and a wall-clock cap on a loaded machine must not lose them
	items := sideItems(r.Quick())
	nSide := len(items)
	if !r.Quick() { // three entries over the sub-alphabet (first: these are the long items)
		for _, e1 := range sub {
			for _, e2 := range sub {
				items = append(items, item{prefix: []entry{e1, e2}, last: sub, paths: subPaths, meths: mainReqMethods, cfgs: mainCfgIdx})
			}
		}
	}
	for _, e1 := range fam { // three entries, same-path / multi-method family (both tiers)
		for _, e2 := range fam {
			items = append(items, item{prefix: []entry{e1, e2}, last: fam, paths: famPaths, meths: mainReqMethods, cfgs: mainCfgIdx})
		}
	}
	items = append(items, item{prefix: nil, paths: allPaths, meths: mainReqMethods, cfgs: mainCfgIdx})             // empty table
	items = append(items, item{prefix: nil, last: full, paths: allPaths, meths: mainReqMethods, cfgs: mainCfgIdx}) // one entry
	for _, e1 := range full {                                                                                      // two entries, full alphabet
		items = append(items, item{prefix: []entry{e1}, last: full, paths: allPaths, meths: mainReqMethods, cfgs: mainCfgIdx})
	}
	if only := os.Getenv("VERIF_C01_ONLY"); only != "" { // developer aid: "side" = the side families, or one family name
		var keep []item
		for i, it := range items {
			if (i < nSide && (only == "side" || only == famNames[it.fam])) || (i >= nSide && only == "main") {
				keep = append(keep, it)
			}
		}
		items = keep
		r.Cap("developer run: only " + only)
	}
	if r.Deadline.IsZero() { // internal cap: a run that cannot finish in its tier ends with exhaustive:false
		// (nominal: quick ~20 s, thorough ~7 min on 16 idle cores; the caps leave room for a shared machine)
		r.Deadline = r.Start.Add(5 * time.Minute)
		if !r.Quick() {
			r.Deadline = r.Start.Add(25 * time.Minute)
		}
	}

	profile := os.Getenv("VERIF_C01_PROFILE") // developer aid: CPU/mutex profile of a truncated in-process run
	if profile != "" {
		f, _ := os.Create(profile)
		_ = pprof.StartCPUProfile(f)
		runtime.SetMutexProfileFraction(5)
		if len(items) > 40 {
			items = items[:40]
			r.Cap("developer profile run: truncated to 40 work items")
		}
	}
	// Every fiber app owns a sync.Pool and the first use of a pool takes a process-wide runtime lock
	// (sync.Pool.pinSlow/allPoolsMu): with millions of apps, goroutines of ONE process spend most of their time
	// queueing there. The tables are therefore sharded over single-threaded worker processes.
	switch {
	case r.IsWorker():
		if wp := os.Getenv("VERIF_C01_WORKER_PROFILE"); wp != "" { // developer aid: CPU profile of one worker
			f, _ := os.Create(wp)
			_ = pprof.StartCPUProfile(f)
			export(r, enumerate(r, items))
			pprof.StopCPUProfile()
			f.Close()
		} else {
			export(r, enumerate(r, items))
		}
		r.Finish(core.Evidence{}) // writes the partial and exits
	case profile != "" || os.Getenv("VERIF_C01_INPROC") != "":
		export(r, enumerate(r, items))
		pprof.StopCPUProfile()
		if profile != "" {
			f, _ := os.Create(profile + ".mutex")
			_ = pprof.Lookup("mutex").WriteTo(f, 0)
			f.Close()
		}
	default:
		if crashed := r.SpawnWorkers(runtime.NumCPU(), []string{"GOMAXPROCS=1"}); len(crashed) > 0 {
			core.Fatal("worker process failed: %v", crashed)
		}
	}
	if timing {
		fmt.Fprintf(os.Stderr, "enumeration done: %v\n", time.Since(r.Start))
	}
	tot := collect(r)
	// How the router files routes into buckets is an implementation detail a correct router may change: a
	// degenerate index is reported, never an error.
	if r.P.Counters["requests_selecting_a_specific_bucket"] == 0 {
		r.Note("no request selected a bucket other than the global one: this build of the router files every route in the global bucket, so the 3-byte index is not exercised (dispatch is still compared with the linear scan on every case)")
	}
	// Anti-vacuity of the harness's OWN exploration (complete runs only): handlers ran, chains of two and more
	// registrations ran, overrides took effect, multi-handler registrations ran, 405 was expected somewhere.
	if len(r.P.Caps) == 0 {
		for _, c := range []string{"nontrivial", "evaluations_with_two_or_more_registrations_run", "evaluations_with_effective_override",
			"evaluations_running_a_multi_handler_registration", "evaluations_expecting_405"} {
			if r.P.Counters[c] == 0 {
				core.Fatal("vacuous exploration: counter %s is zero", c)
			}
		}
		for f := 1; f < nFams; f++ {
			if c := "side_" + famNames[f] + "_evaluations_deciding_the_new_dimension"; r.P.Counters[c] == 0 {
				core.Fatal("vacuous exploration: counter %s is zero", c)
			}
		}
	}

	// samples: conforming executions with at least two handlers and an effective override (6 smallest mixed keys)
	sort.Slice(tot.samples, func(i, j int) bool { return tot.samples[i].key < tot.samples[j].key })
	var samples []any
	for i := 0; i < len(tot.samples) && len(samples) < 6; i++ {
		samples = append(samples, tot.samples[i].v)
	}

	bounds := map[string]any{
		"max_entries_full_alphabet": 2,
		"entries_full_alphabet":     len(full),
		"kinds":                     kindNames[:nFullKinds],
		"family_entries":            len(fam),
		"family_table_length":       3,
		"family_kinds":              kindNamesOf(famKinds),
		"family_patterns":           famPatterns,
		"family_behaviours":         []string{behNames[bReply], behNames[bNext]},
		"family_handlers_per_call":  chainLens[:],
		"family_request_paths":      famReqPaths,
		"patterns":                  patterns[:nFullPatterns],
		"behaviours":                behNames[:nFullBeh],
		"request_methods":           []string{"GET", "POST", "HEAD", "PUT"},
		"request_paths":             reqPaths[:nFullReqPaths],
		"configs":                   8,
		"ctx_kinds":                 2,
		"side_families":             sideBounds(r.Quick()),
	}
	rule := fmt.Sprintf("every sequence (duplicates allowed) of <=2 entries over %d entries (5 kinds x %d patterns x 5 behaviours)", len(full), nFullPatterns)
	rule += fmt.Sprintf(" plus every sequence of exactly 3 entries over the %d-entry same-path/multi-method family (kinds %v x the escaped/unescaped twin patterns %q x behaviours reply/Next x %v handlers per registration call; requests: 4 methods x paths %v)", len(fam), kindNamesOf(famKinds), famPatterns, chainLens, famReqPaths)
	if !r.Quick() {
		bounds["max_entries_sub_alphabet"] = 3
		bounds["entries_sub_alphabet"] = len(sub)
		bounds["sub_patterns"] = subPatterns
		bounds["sub_kinds"] = kindNames[:kGRP]
		bounds["sub_request_paths"] = subReqPaths
		rule += fmt.Sprintf(" plus every sequence of exactly 3 entries over the %d-entry sub-alphabet (4 kinds without the group kind x patterns %v x 5 behaviours; requests: 4 methods x paths %v)", len(sub), subPatterns, subReqPaths)
	}
	rule += "; plus the side families (bounds.side_families): " + sideRule()
	rule += fmt.Sprintf("; each table is built once per config (8; side families: their own list) and ctx kind (2) and receives all its requests (<=2 entries: %d = 4 methods x %d paths); the observed handler trace/status/Allow set is compared with a linear reference dispatcher using the real Route.match on single-route apps. A case is non-trivial when the reference runs at least one handler or expects 405", len(mainReqMethods)*nFullReqPaths, nFullReqPaths)
	r.Finish(core.Evidence{
		Level:      "exploration",
		Exhaustive: true,
		Coverage: map[string]any{
			"evaluations":         r.P.Counters["evaluations"],
			"distinct_nontrivial": r.P.Counters["nontrivial"],
			"rule":                rule,
			"bounds":              bounds,
			"samples":             samples,
		},
		Assumptions: []string{
			"matching semantics are not judged (C02/C03): 'route i handles (method, path)' is the answer of the real Route.match on the route object(s) that the same registration creates when it is the ONLY registration of an app with the same config",
			"detection path / path of a raw request path come from the real configDependentPaths (validated at start-up against live contexts, also after Path() overrides)",
			"handler-level drive through app.Handler() on a fake connection; one handler per registration call except in the same-path family, where a call passes 1 or 5 handlers (all but the last are Next() pass-throughs) and a registration counts as run when its whole chain ran in order",
			"status/Allow at the end of a chain are only judged when no endpoint (non-Use entry) ran and no same-method endpoint for the final path exists anywhere in the table; when an endpoint that matched the final method and path ran and called Next, only 'the status is not 405' is judged (405 + Allow is the reply 'when no endpoint matches'); otherwise the statement is silent (counted in unspecified_skipped)",
			"side families: Method(x) with x not among the app's RequestMethods is 'no override' (documented); a request whose method the app does not have (501 in fiber) and the status after a handler returned an error without calling Next are not judged; a registration after start-up is only judged after app.RebuildTree()",
			"a deviation that carries one of the 'override-...' class names of the two known mechanisms is additionally replayed on a ~40-line model of 'continue at the old numeric index in the slice of the new bucket / method stack, walking merged handler lists without re-matching' over the app's REAL bucket slices; if the model does not reproduce the handlers that ran, the signature gets the suffix beyond-index-reuse-and-merge (never matched by a known finding)",
		},
		MinOutcomes: 6,
	})
}

func kindNamesOf(ks []int) []string {
	var out []string
	for _, k := range ks {
		out = append(out, kindNames[k])
	}
	return out
}

// selfCheck validates the path table against live contexts: for every config, ctx kind and request (method, path)
// the context of a real request must carry exactly VerifPaths(raw) and the stack index of the method, and the
// override behaviours of the main product must lead to VerifPaths(target) / the target method. A disagreement is
// a harness error, never a violation.
func selfCheck() {
	for ci, c := range cfgs {
		for ctxKind := 0; ctxKind < 2; ctxKind++ {
			app := fiber.New(c.fiber())
			if ctxKind == 1 {
				app.NewCtxFunc(func(a *fiber.App) fiber.CustomCtx {
					return &customCtx{DefaultCtx: *fiber.NewDefaultCtx(a)}
				})
			}
			app.Handler()
			var fctx fasthttp.RequestCtx
			for rm, name := range methUniverse {
				m := stackIdx[ci][rm]
				if m < 0 {
					continue
				}
				for pi, raw := range reqPaths {
					// (the override behaviours of the side families are NOT validated here: what Path(x) / Method(x)
					// must lead to is "the routes matching x", which the dispatch comparison itself decides)
					for b := bNext; b < nFullBeh; b++ {
						// a live context exactly as the request handler acquires it (the router itself is not involved)
						fx.CallInto(&fctx, func(f *fasthttp.RequestCtx) {
							cx := app.AcquireCtx(f)
							defer app.ReleaseCtx(cx)
							check := func(step string, wp, wm int) {
								d, p, h, gm := fiber.VerifCtxPaths(cx)
								if d != pathDet[ci][wp] || p != pathPath[ci][wp] || h != pathHash[ci][wp] || gm != wm {
									core.Fatal("tables disagree with live ctx: cfg=%+v %s %q %s: live=(%q,%q,%d,method %d) table=(%q,%q,%d,method %d)",
										c, name, raw, step, d, p, h, gm, pathDet[ci][wp], pathPath[ci][wp], pathHash[ci][wp], wm)
								}
							}
							check("as received", pi, m)
							wp, wm := pi, m
							if t := behPathTarget[b]; t != "" {
								cx.Path(t)
								wp = behPathIdx[b]
							}
							if t := behMethTarget[b]; t != "" {
								cx.Method(t)
								for nm, x := range mlist[ci] {
									if x == t {
										wm = nm
									}
								}
							}
							check("after "+behNames[b], wp, wm)
						}, fx.Req(name, uriOf(raw)), nil, false)
					}
				}
			}
		}
	}
}

// enumerate runs the work items of this process' shard and returns the deterministically merged accumulator.
func enumerate(r *core.Run, items []item) *acc {
	var mu sync.Mutex
	states := map[*core.Local]*wstate{}
	r.Parallel(len(items), func(i int, l *core.Local) {
		if !r.Shard(i) {
			return
		}
		mu.Lock()
		ws := states[l]
		if ws == nil {
			ws = newWstate()
			states[l] = ws
		}
		mu.Unlock()
		if r.Expired() {
			r.Cap("wall-clock budget reached before all tables were run")
			return
		}
		it := items[i]
		if it.last == nil {
			ws.runTable(it.prefix, &it, false)
			return
		}
		tbl := make([]entry, len(it.prefix)+1)
		copy(tbl, it.prefix)
		for j, e := range it.last {
			tbl[len(it.prefix)] = e
			ws.runTable(tbl, &it, i%37 == 5 && j%41 == 7)
		}
	})
	tot := newAcc()
	for _, ws := range states {
		a := ws.acc
		tot.apps += a.apps
		tot.evals += a.evals
		tot.nontrivial += a.nontrivial
		tot.bucketed += a.bucketed
		tot.overrides += a.overrides
		tot.unspecified += a.unspecified
		tot.multiRun += a.multiRun
		tot.chainRun += a.chainRun
		tot.exp405 += a.exp405
		tot.unknownMethod += a.unknownMethod
		tot.no405 += a.no405
		for f := range a.famEvals {
			tot.famEvals[f] += a.famEvals[f]
			tot.famHits[f] += a.famHits[f]
		}
		tot.samples = append(tot.samples, a.samples...)
		for s := range a.outc {
			for n := range a.outc[s] {
				for o := range a.outc[s][n] {
					tot.outc[s][n][o] += a.outc[s][n][o]
				}
			}
		}
		for sig, v := range a.viol {
			t, ok := tot.viol[sig]
			if !ok {
				t = &vrec{key: ^uint64(0)}
				tot.viol[sig] = t
			}
			t.count += v.count
			if v.key < t.key {
				t.key, t.what, t.cs, t.o, t.e = v.key, v.what, v.cs, v.o, v.e
			}
		}
	}
	return tot
}

const (
	keySep       = "\x1f"
	samplePrefix = "c01-sample:"
)

// export puts an accumulator into the run's partial. Counters and outcomes add up in core's merge; a violation
// example and the sample candidates travel with their order key (in the map key / in a note) so that the
// parent can pick the SAME example whatever order the worker partials arrive in.
func export(r *core.Run, a *acc) {
	r.Add("apps_built", a.apps)
	r.Add("evaluations", a.evals)
	r.Add("nontrivial", a.nontrivial)
	r.Add("requests_selecting_a_specific_bucket", a.bucketed)
	r.Add("evaluations_with_effective_override", a.overrides)
	r.Add("unspecified_skipped", a.unspecified)
	r.Add("evaluations_with_two_or_more_registrations_run", a.multiRun)
	r.Add("evaluations_running_a_multi_handler_registration", a.chainRun)
	r.Add("evaluations_expecting_405", a.exp405)
	r.Add("requests_with_a_method_the_app_does_not_have", a.unknownMethod)
	r.Add("evaluations_judged_not_405_because_an_endpoint_of_the_final_method_and_path_ran", a.no405)
	for f := 1; f < nFams; f++ {
		r.Add("side_"+famNames[f]+"_evaluations", a.famEvals[f])
		r.Add("side_"+famNames[f]+"_evaluations_deciding_the_new_dimension", a.famHits[f])
	}
	stNames := [5]string{"200", "404", "405", "none", "other"}
	ovNames := [4]string{"no-override-handler", "path-override-handler", "method-override-handler", "path+method-override-handlers"}
	for s := range a.outc {
		for n := range a.outc[s] {
			for o := range a.outc[s][n] {
				if c := a.outc[s][n][o]; c > 0 {
					r.P.Outcomes[fmt.Sprintf("status=%s handlers_run=%d %s", stNames[s], n, ovNames[o])] += c
				}
			}
		}
	}
	for sig, v := range a.viol {
		r.P.Violations[fmt.Sprintf("%s%s%020d", sig, keySep, v.key)] = &core.Violation{Signature: sig, What: v.what, Case: v.cs, Observed: v.o, Expected: v.e, Count: v.count}
	}
	for _, sm := range a.samples {
		b, _ := json.Marshal(map[string]any{"key": fmt.Sprintf("%020d", sm.key), "v": sm.v})
		r.P.Notes = append(r.P.Notes, samplePrefix+string(b))
	}
}

// collect undoes export on the merged partial: per signature the example with the smallest order key and the
// summed count; the sample candidates are taken out of the notes.
func collect(r *core.Run) *acc {
	tot := newAcc()
	keys := make([]string, 0, len(r.P.Violations))
	for k := range r.P.Violations {
		keys = append(keys, k)
	}
	sort.Strings(keys) // same signature: ascending order key
	merged := map[string]*core.Violation{}
	for _, k := range keys {
		v := r.P.Violations[k]
		sig := k
		if i := strings.Index(k, keySep); i >= 0 {
			sig = k[:i]
		}
		if m, ok := merged[sig]; ok {
			m.Count += v.Count
		} else {
			v.Signature = sig
			merged[sig] = v
		}
	}
	r.P.Violations = merged
	var notes []string
	for _, n := range r.P.Notes {
		if !strings.HasPrefix(n, samplePrefix) {
			notes = append(notes, n)
			continue
		}
		var rec struct {
			Key string `json:"key"`
			V   any    `json:"v"`
		}
		if json.Unmarshal([]byte(n[len(samplePrefix):]), &rec) == nil {
			k, _ := strconv.ParseUint(rec.Key, 10, 64)
			tot.samples = append(tot.samples, sampleRec{k, rec.V})
		}
	}
	r.P.Notes = notes
	return tot
}
