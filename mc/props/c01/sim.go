package main

// A small executable model of the two KNOWN mechanisms behind the 'override-...' signature classes: the router keeps
// ONE numeric cursor (ctx.indexRoute) and applies it to whichever slice the current method and bucket key select,
// and Next() walks the handler list of the current route object (which duplicate-path merging may have extended)
// without matching again. The model runs over the app's REAL bucket slices and the REAL per-route matcher; it is
// only used to tell whether a deviation from the specification is reproduced by these mechanisms (then it keeps
// its class name) or not (then it is something else and says so in its signature). It never decides conformance.

import (
	"github.com/gofiber/fiber/v3"
)

// modelRun gives the handler-level trace (same coding as wstate.raw) the index-reuse model predicts.
func (ws *wstate) modelRun(app *fiber.App, ci int, tbl []entry, m, p int) []uint8 {
	var raw []uint8
	idx := -1
	for {
		tree, ok := fiber.VerifTree(app, m)[pathHash[ci][p]]
		if !ok {
			tree = fiber.VerifTree(app, m)[0]
		}
		var route *fiber.Route
		for idx < len(tree)-1 {
			idx++
			if rt := tree[idx]; fiber.VerifRouteMatch(rt, pathDet[ci][p], pathPath[ci][p]) {
				route = rt
				break
			}
		}
		if route == nil {
			return raw
		}
		for _, h := range route.Handlers {
			code, known := ws.ident[fid(h)]
			if !known || len(raw) >= maxTrace {
				return raw
			}
			raw = append(raw, code)
			if code&7 != lastInChain {
				continue // a pass-through handler: Next()
			}
			b := tbl[code>>3].beh
			if b == bReply || b == bError {
				return raw
			}
			if t := behPathIdx[b]; t >= 0 {
				p = t
			}
			if t := behMethTarget[b]; t != "" {
				for nm, name := range mlist[ci] {
					if name == t {
						m = nm
					}
				}
			}
		}
	}
}

// explainedByIndexReuse: the handlers that ran are exactly those the model predicts.
func (ws *wstate) explainedByIndexReuse(app *fiber.App, ci int, tbl []entry, m, pi int, o *observed) bool {
	if o.panicv != "" || ws.overflow {
		return false
	}
	want := ws.modelRun(app, ci, tbl, m, pi)
	if len(want) != len(o.raw) {
		return false
	}
	for i := range want {
		if want[i] != o.raw[i] {
			return false
		}
	}
	return true
}
