package main

// Violation signatures of C01: each names a root-cause class (which part of the index/cursor
// machinery disagrees with the linear scan) plus the few discriminators that separate
// different mechanisms. Nothing here influences the verdict; it only names it.

import (
	"fmt"
	"strings"
	"unsafe"

	"github.com/gofiber/fiber/v3"
)

var ovNamesShort = [4]string{"none", "path", "method", "path+method"}

// patClass describes the first constant of the effective registered pattern relative to the 3-byte key.
func patClass(e entry, c cfgT) string {
	p := regPattern(e)
	if !c.StrictRouting && len(p) > 1 {
		p = strings.TrimRight(p, "/")
		if p == "" {
			p = "/"
		}
	}
	// split at the first unescaped parameter start
	cons, rest := "", ""
	for i := 0; i < len(p); i++ {
		if p[i] == '\\' && i+1 < len(p) {
			cons += string(p[i+1])
			i++
			continue
		}
		if p[i] == ':' || p[i] == '*' || p[i] == '+' {
			rest = p[i:]
			break
		}
		cons += string(p[i])
	}
	follow := "nothing"
	switch {
	case rest == "":
	case rest[0] == '*' || strings.HasSuffix(rest, "?"):
		follow = "optional"
	default:
		follow = "required-param"
	}
	if len(cons) == 3 && cons[2] == '/' && follow == "optional" {
		return "optional-after-2byte-prefix"
	}
	return fmt.Sprintf("const%d-then-%s", len(cons), follow)
}

func bucketLabel(app *fiber.App, ci, m, p int) string {
	h := pathHash[ci][p]
	if h == 0 {
		return "global"
	}
	if _, ok := fiber.VerifTree(app, m)[h]; ok {
		return "specific"
	}
	return "global"
}

// bucketMiss: entry e handles (m, p) but its route sits in a specific bucket other than the one the path selects.
func bucketMiss(ci int, e entry, m, p int) bool {
	miss := false
	for u := 0; u < kindUnits(e.kind); u++ {
		if !unitHandles(ci, e, u, m, int(pathCanon[ci][p])) {
			continue
		}
		if k := loneKey[ci][e.kind][e.pat][u][m]; k == 0 || k == pathHash[ci][p] {
			return false
		}
		miss = true
	}
	return miss
}

// missName separates the two ways a matching route can be outside the selected bucket: the request
// path is shorter than the 3-byte key (bucket 0 is selected), or its first 3 bytes differ from the route's key.
func missName(ci, p int) string {
	if len(pathDet[ci][p]) < 3 {
		return "short-path-bucket-miss"
	}
	return "bucket-key-mismatch"
}

// regPattern is the pattern text a registration hands to the router (what addRoute's duplicate test sees).
func regPattern(e entry) string {
	p := patterns[e.pat]
	switch e.kind {
	case kGRP, kGUSE:
		return "/ab" + p
	case kUSE0:
		return "/"
	}
	return p
}

// fid identifies a handler VALUE (the closure object): two closures made from the same function literal
// differ. Only used to name a root cause, never for the verdict.
func fid(h fiber.Handler) unsafe.Pointer { return *(*unsafe.Pointer)(unsafe.Pointer(&h)) }

// overwritten looks for a route object whose handler list no longer holds, at the slots the harness saw a
// registration fill, that registration's own handlers. It returns the registration that CREATED the route
// object (its handler slice is the one later registrations were appended to).
func (ws *wstate) overwritten(tbl []entry) (base int, found bool) {
	for i, e := range tbl {
		for m := 0; m < nMeth; m++ {
			rt := ws.rt[i][m]
			if rt == nil {
				continue
			}
			n := e.chain()
			for j := 0; j < n; j++ {
				want := ws.h[i][e.beh]
				if j < n-1 {
					want = ws.pre[i][j]
				}
				if at := ws.hi[i][m] + j; at >= len(rt.Handlers) || fid(rt.Handlers[at]) != fid(want) {
					for b := range tbl {
						if ws.rt[b][m] == rt && ws.hi[b][m] == 0 {
							return b, true
						}
					}
					return i, true
				}
			}
		}
	}
	return 0, false
}

func (ws *wstate) classify(app *fiber.App, ci int, tbl []entry, mi, pi int, ref *refResult, o *observed) (sig, what string) {
	if o.panicv != "" {
		msg := o.panicv
		if len(msg) > 80 {
			msg = msg[:80]
		}
		return "panic " + msg, "the request panicked inside the router"
	}
	if ws.overflow {
		return "runaway-chain", fmt.Sprintf("more than %d handler executions for one request", maxTrace)
	}
	if b, yes := ws.overwritten(tbl); yes {
		return fmt.Sprintf("route-handlers-overwritten-through-shared-array created-by=%s handlers-in-call=%d", kindNames[tbl[b].kind], tbl[b].chain()),
			"a route object's handler list no longer holds the handlers that were registered into it: the per-method route objects of one multi-method registration share one handler array, and the duplicate-path merge of a later registration for ONE method appended in place, overwriting the slot another method's route had been given (a handler registered for another method runs, the registered one is lost)"
	}
	if ws.broken {
		return "handler-chain-broken", "the handlers passed in one registration call did not run as one complete in-order chain"
	}
	// first divergence
	k := 0
	for k < ref.n && k < len(o.trace) && ref.trace[k] == o.trace[k] {
		k++
	}
	ovAt := func(upto int) (ov int, last int) {
		last = -1
		for j := 0; j < upto; j++ {
			if ref.eff[j] != 0 {
				ov |= int(ref.eff[j])
				last = j
			}
		}
		return ov, last
	}
	if k == ref.n && k == len(o.trace) {
		// same handlers, different end-of-chain reply
		ov, _ := ovAt(ref.n)
		m, p := int(ref.stM[ref.n]), int(ref.stP[ref.n])
		if ref.reply {
			return fmt.Sprintf("reply-status got=%d", o.status), "a handler replied but the status is not 200"
		}
		if ref.no405 {
			// which kind of entry matched last before the chain ran out (the 'endpoint matched' memory is per request:
			// what matched AFTER the endpoint must not matter)
			lastRun := "endpoint"
			if kindIsUse(tbl[ref.trace[ref.n-1]].kind) {
				lastRun = "use"
			}
			return fmt.Sprintf("end-of-chain got=405 although-an-endpoint-of-the-request-method-ran last-match=%s override=%s", lastRun, ovNamesShort[ov]),
				"an endpoint matching the request's (final) method and path ran and called Next, nothing replied: the reply is 405 + Allow although 405 is the reply 'when no endpoint matches' (expected: not 405, fiber's own answer is 404 Cannot METHOD path)"
		}
		// which methods are missing / extra in the Allow set, and is a bucket miss the reason?
		obsAllow := o.allow
		if o.status != 405 {
			obsAllow = 0
		}
		missing, extra := ref.allow&^obsAllow, obsAllow&^ref.allow
		for om := 0; om < nMeth; om++ {
			if missing&(1<<uint(om)) == 0 {
				continue
			}
			allMiss, any := true, false
			var first entry
			for _, e := range tbl {
				if !kindIsUse(e.kind) && entryHandles(ci, e, om, p) {
					if !any {
						first = e
					}
					any = true
					allMiss = allMiss && bucketMiss(ci, e, om, p)
				}
			}
			for i, e := range tbl {
				if kindIsUse(e.kind) || !entryHandles(ci, e, om, p) || ws.rt[i][om] == nil {
					continue
				}
				for j := range tbl {
					if j != i && ws.rt[j][om] == ws.rt[i][om] && regPattern(tbl[j]) != regPattern(e) {
						return "merged-registrations-of-different-patterns effect=endpoint-missing-from-allow",
							"end of chain: a method whose endpoint matches the path is not offered in Allow: the endpoint's registration was merged into the route object of a registration with a different pattern text (e.g. differing only by an escape character) and is only reachable through that route's matcher"
					}
				}
			}
			if any && allMiss {
				return fmt.Sprintf("%s pattern-class=%s at=allow-scan", missName(ci, p), patClass(first, cfgs[ci])),
					"end of chain: a method whose endpoint matches the path is not offered in Allow (404 instead of 405, or a smaller Allow set): the 405 scan looks in the bucket selected by the first 3 bytes of the request path, the route sits in another bucket"
			}
		}
		_ = m
		return fmt.Sprintf("end-of-chain exp=%d got=%d allow-missing=%v allow-extra=%v%s override=%s", ref.status, o.status, allowNames(ci, missing), allowNames(ci, extra), badAllow(o), ovNamesShort[ov]),
			"no endpoint matches: status / Allow set differ from '404, or 405 with exactly the other methods that have a matching endpoint'"
	}

	ov, lastOv := ovAt(k)
	mK, pK := int(ref.stM[k]), int(ref.stP[k])
	prev, e, ob := -1, -1, -1
	if k > 0 {
		prev = int(ref.trace[k-1])
	}
	if k < ref.n {
		e = int(ref.trace[k])
	}
	if k < len(o.trace) {
		ob = int(o.trace[k])
	}
	effect := ""
	subject := e
	switch {
	case ob == -1:
		effect = "skips-later-entry"
	case ob == prev:
		effect, subject = "reruns-same-entry", ob
	case ob < prev:
		effect, subject = "runs-earlier-entry", ob
	case entryHandles(ci, tbl[ob], mK, pK):
		effect = "skips-later-entry" // e < ob was passed over
	default:
		effect, subject = "runs-nonmatching-entry", ob
	}

	// merged-handler mechanisms (duplicate-path merging in addRoute)
	if ov != 0 && effect == "runs-nonmatching-entry" && prev >= 0 {
		// (any method stack: the request is still walking the handler list of the route object it entered
		// under the old method)
		for mm := 0; mm < nMeth; mm++ {
			if ws.rt[ob][mm] != nil && ws.rt[ob][mm] == ws.rt[prev][mm] && ws.hi[ob][mm] > ws.hi[prev][mm] {
				return fmt.Sprintf("override-%s-runs-merged-handler", ovNamesShort[ov]),
					"after the override the next handler of the SAME route object ran although its registration does not match the new method/path: duplicate-path merging appended it to the overriding route's handler list, which Next() walks without re-matching"
			}
		}
	}
	if ov != 0 && effect == "reruns-same-entry" && ob >= 0 {
		// an entry that ran twice after an override: once as a handler MERGED into the route object of an earlier entry
		// with the same path (Next() walks that handler list without re-matching) and once through its own route that
		// matches the new path. Which of the two runs survives depends on the bucket layout (the cursor-reuse defect
		// may skip the second one); the root cause of the extra run is the merge.
		for mm := 0; mm < nMeth; mm++ {
			for j := 0; j < ob; j++ {
				if (ws.rt[ob][mm] != nil && ws.rt[j][mm] == ws.rt[ob][mm]) || (ws.mg[ob][mm] != nil && ws.rt[j][mm] == ws.mg[ob][mm]) {
					return fmt.Sprintf("override-%s-runs-merged-handler", ovNamesShort[ov]),
						"after the override a handler merged into the overriding route's handler list ran although its registration does not match the new method/path, and ran again through its own route: duplicate-path merging appended it to the overriding route's handler list, which Next() walks without re-matching"
				}
			}
		}
	}
	if effect == "skips-later-entry" && e >= 0 && bucketMiss(ci, tbl[e], mK, pK) {
		return fmt.Sprintf("%s pattern-class=%s at=dispatch", missName(ci, pK), patClass(tbl[e], cfgs[ci])),
			"a route whose own matcher accepts the path never runs: the request path selects a bucket by its first 3 bytes (bucket 0 when shorter), the route was filed under the first 3 bytes of its constant prefix"
	}
	if ov != 0 && effect == "skips-later-entry" && e >= 0 && ws.rt[e][mK] != nil {
		for j := 0; j <= prev; j++ {
			if j != e && ws.rt[j][mK] == ws.rt[e][mK] {
				return fmt.Sprintf("override-%s-skips-merged-handler", ovNamesShort[ov]),
					"a later-registered handler matching the new method/path never runs: duplicate-path merging appended it to a route object registered before the overriding route, which the cursor has already passed"
			}
		}
	}
	if ov != 0 {
		what := "after Path()/Method() the scan continues at the old numeric index inside a different bucket / method stack, so later-registered matching entries are skipped or already-passed entries run (again)"
		if ov != 1 { // a method override (alone or combined) switches the method stack: the bucket labels say nothing more
			return fmt.Sprintf("override-%s-cursor-reuse effect=%s", ovNamesShort[ov], effect), what
		}
		oldL := bucketLabel(app, ci, int(ref.stM[lastOv]), int(ref.stP[lastOv]))
		newL := bucketLabel(app, ci, int(ref.stM[lastOv+1]), int(ref.stP[lastOv+1]))
		return fmt.Sprintf("override-path-cursor-reuse effect=%s buckets=%s->%s", effect, oldL, newL), what
	}
	// no override involved: mechanisms of the registration bookkeeping itself
	if subject >= 0 && ws.rt[subject][mK] != nil {
		for j := range tbl {
			if j != subject && ws.rt[j][mK] == ws.rt[subject][mK] && regPattern(tbl[j]) != regPattern(tbl[subject]) {
				return fmt.Sprintf("no-override merged-registrations-of-different-patterns effect=%s", effect),
					"two consecutive registrations whose pattern texts differ (e.g. only by an escape character) were merged into ONE route object, so the handler of one runs (or is skipped) under the matcher of the other"
			}
		}
	}
	if ob >= 0 && effect == "runs-nonmatching-entry" && ws.rt[ob][mK] == nil {
		return "no-override runs-handler-registered-for-other-method",
			"a handler ran under a method for which its registration created no route"
	}
	return fmt.Sprintf("no-override dispatch-differs-from-linear-scan effect=%s", effect),
		"without any override the handlers that ran are not the registration-order sequence of individually matching routes"
}

func badAllow(o *observed) string {
	if o.badAl == "" {
		return ""
	}
	return " allow-malformed=" + strings.Fields(o.badAl)[0]
}
