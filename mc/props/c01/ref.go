package main

// Reference side of C01: the alphabet, the "does entry X handle (method, path)?" table obtained
// from the REAL per-route matcher on route objects of single-route apps, and the ~60-line linear
// reference dispatcher (no bucket map, no cursor).

import (
	"fmt"

	"github.com/gofiber/fiber/v3"

	"verifmc/core"
)

// ---- alphabet --------------------------------------------------------------------------------

const (
	kGET = iota
	kPOST
	kUSE
	kALL
	kGRP // GET registered inside app.Group("/ab")
	// kinds of the full alphabet end here; the two below are the other multi-method registration sites
	// (Registering.Add, Group.Add) and only occur in the same-path family
	kRTADD // app.Route(p).Add([GET, POST], ...)
	kGRALL // app.Group("/").All(p, ...)
	nKinds
)

const nFullKinds = kGRP + 1

var kindNames = [nKinds]string{"GET", "POST", "USE", "ALL", "GROUP(/ab).GET", "ROUTE(p).ADD[GET,POST]", "GROUP(/).ALL"}

// chainLens: number of handlers passed in ONE registration call (entry.cl indexes it). All but the last are
// plain Next() pass-throughs, the last one has the entry's behaviour. 5 is the smallest length at which the
// slice built by the Add methods (`append([]Handler{h}, hs...)`) has spare capacity (Go rounds 40 bytes up to
// the 48-byte size class), i.e. where a later in-place append can be seen through another route object
// sharing the array.
var chainLens = [...]int{1, 5}

const (
	nLens    = len(chainLens)
	maxChain = 5
)

const (
	bReply = iota
	bNext
	bPathABC
	bPathX
	bMethPost
	nBeh
)

var behNames = [nBeh]string{"reply", "Next", `Path("/abc")+Next`, `Path("/x")+Next`, `Method("POST")+Next`}

// patterns are chosen around the 3-byte bucket key: first constant shorter than / equal to / longer
// than 3 bytes, with and without optional slash, case-folded, escaped, plus the two rewrite targets.
var patterns = []string{
	"/", "/a", "/ab", "/abc", "/abc/", "/abcd", "/abc/d", "/a/:p?", "/ab/:p?", "/:p", "/abc/:p",
	"/*", "/abc/*", "/ABC", "/a b", `/ab\:c`, "/x", "/a/*",
	// unescaped / escaped twins of `/ab\:c` and "/a/*": same text once the escape characters are removed,
	// different routes (parameter vs. literal ':' / '*')
	"/ab:c", `/a/\*`,
}

// Same-path / multi-method family (both tiers): every table of exactly 3 entries over
// famKinds x famPatterns x famBehs x chainLens. The two patterns are an escaped/unescaped twin pair, so that
// consecutive registrations are either the same pattern (duplicate-path merging in one or several method
// stacks) or differ by the escape character only.
var (
	famKinds    = []int{kGET, kPOST, kUSE, kALL, kRTADD, kGRALL}
	famPatterns = []string{"/ab:c", `/ab\:c`}
	famBehs     = []int{bReply, bNext}
	famReqPaths = []string{"/abc", "/x", "/ab:c"}
)

// subPatterns is the sub-alphabet of the 3-entry pass of the thorough tier.
var subPatterns = []string{"/", "/ab", "/abc", "/a/:p?", "/:p", "/abc/:p", "/*", "/x"}

// subReqPaths are the request paths of the 3-entry pass (those the sub-alphabet can tell apart).
var subReqPaths = []string{"/", "/a", "/a/", "/ab", "/abc", "/abc/", "/ABC", "/abc/d", "/x", "/a/x"}

var reqPaths = []string{
	"/", "/a", "/a/", "/ab", "/ab/", "/abc", "/abc/", "/ABC", "/abcd", "/abc/d", "/abc/d/", "/x",
	"/a%20b", "/%61bc", "//", "/ab:c", "/ab/a", "/a/x", "/a/*",
}

// request methods as indices into fiber.DefaultMethods
const (
	mGET  = 0
	mHEAD = 1
	mPOST = 2
	mPUT  = 3
	nMeth = 9
)

var reqMethods = []int{mGET, mPOST, mHEAD, mPUT}

type cfgT struct{ CaseSensitive, StrictRouting, UnescapePath bool }

var cfgs [8]cfgT

func init() {
	for i := range cfgs {
		cfgs[i] = cfgT{i&1 != 0, i&2 != 0, i&4 != 0}
	}
}

// errStatus is a minimal ErrorHandler: it turns the router's *fiber.Error (404 / 405) into the response
// status exactly like the default one, minus the body and content type (not observed here; the
// Allow header is put on the response by the router before the error handler runs).
func errStatus(c fiber.Ctx, err error) error {
	code := fiber.StatusInternalServerError
	if e, ok := err.(*fiber.Error); ok { //nolint:errorlint // the router returns the value itself
		code = e.Code
	}
	c.Status(code)
	return nil
}

func (c cfgT) fiber() fiber.Config {
	return fiber.Config{CaseSensitive: c.CaseSensitive, StrictRouting: c.StrictRouting, UnescapePath: c.UnescapePath, ErrorHandler: errStatus}
}

// entry is one registration call: kind of call, pattern, behaviour of its last handler, and cl = index into
// chainLens (0: a single handler).
type entry struct{ kind, pat, beh, cl uint8 }

func (e entry) chain() int { return chainLens[e.cl] }

func (e entry) String() string {
	p := patterns[e.pat]
	hs := behNames[e.beh]
	if n := e.chain(); n > 1 {
		hs = fmt.Sprintf("%d x Next, %s", n-1, hs)
	}
	switch e.kind {
	case kUSE:
		return fmt.Sprintf("app.Use(%q, %s)", p, hs)
	case kALL:
		return fmt.Sprintf("app.All(%q, %s)", p, hs)
	case kGRP:
		return fmt.Sprintf("app.Group(\"/ab\").Get(%q, %s)", p, hs)
	case kPOST:
		return fmt.Sprintf("app.Post(%q, %s)", p, hs)
	case kRTADD:
		return fmt.Sprintf("app.Route(%q).Add([GET POST], %s)", p, hs)
	case kGRALL:
		return fmt.Sprintf("app.Group(\"/\").All(%q, %s)", p, hs)
	}
	return fmt.Sprintf("app.Get(%q, %s)", p, hs)
}

// register performs the registration of one entry on app with the handler chain hs (len >= 1).
func register(app *fiber.App, e entry, hs []fiber.Handler) {
	p := patterns[e.pat]
	h, rest := hs[0], hs[1:]
	switch e.kind {
	case kGET:
		app.Get(p, h, rest...)
	case kPOST:
		app.Post(p, h, rest...)
	case kUSE:
		args := make([]any, 0, len(hs)+1)
		args = append(args, p)
		for _, x := range hs {
			args = append(args, x)
		}
		app.Use(args...)
	case kALL:
		app.All(p, h, rest...)
	case kGRP:
		app.Group("/ab").Get(p, h, rest...)
	case kRTADD:
		app.Route(p).Add([]string{fiber.MethodGet, fiber.MethodPost}, h, rest...)
	case kGRALL:
		app.Group("/").All(p, h, rest...)
	}
}

// ---- "handles" table from the real matcher ---------------------------------------------------

var (
	idxABC, idxX int
	// per config and path index
	pathDet   [8][]string
	pathPath  [8][]string
	pathHash  [8][]int
	pathCanon [8][]uint8 // smallest index with the same (detection, path): "same path" for the router
	// handles[cfg][kind][pat][method] = bitmask over canonical path indices
	handles [8][nKinds][][nMeth]uint32
	// loneKey[cfg][kind][pat][method] = key of the specific bucket the entry's route sits in (0 = global / no route)
	loneKey [8][nKinds][][nMeth]int
)

func buildTables() {
	for i, p := range reqPaths {
		if p == "/abc" {
			idxABC = i
		}
		if p == "/x" {
			idxX = i
		}
	}
	nop := func(c fiber.Ctx) error { return nil }
	for ci, c := range cfgs {
		papp := fiber.New(c.fiber())
		for _, raw := range reqPaths {
			d, p, h := fiber.VerifPaths(papp, raw)
			pathDet[ci] = append(pathDet[ci], d)
			pathPath[ci] = append(pathPath[ci], p)
			pathHash[ci] = append(pathHash[ci], h)
		}
		pathCanon[ci] = make([]uint8, len(reqPaths))
		for i := range reqPaths {
			pathCanon[ci][i] = uint8(i)
			for j := 0; j < i; j++ {
				if pathDet[ci][j] == pathDet[ci][i] && pathPath[ci][j] == pathPath[ci][i] {
					pathCanon[ci][i] = uint8(j)
					break
				}
			}
		}
		for k := 0; k < nKinds; k++ {
			handles[ci][k] = make([][nMeth]uint32, len(patterns))
			loneKey[ci][k] = make([][nMeth]int, len(patterns))
			for pi := range patterns {
				// the entry ALONE in a fresh app: "individually matches", independent of any other route
				app := fiber.New(c.fiber())
				register(app, entry{uint8(k), uint8(pi), bReply, 0}, []fiber.Handler{nop})
				app.Handler()
				stack := app.Stack()
				if len(stack) != nMeth {
					core.Fatal("unexpected number of method stacks: %d", len(stack))
				}
				for m := 0; m < nMeth; m++ {
					if len(stack[m]) > 1 {
						core.Fatal("single registration produced %d routes for one method", len(stack[m]))
					}
					for _, rt := range stack[m] {
						use, _, _ := fiber.VerifRouteFlags(rt)
						if use != (k == kUSE) {
							core.Fatal("use flag of %v is %v", entry{uint8(k), uint8(pi), 0, 0}, use)
						}
						for i := range reqPaths {
							if fiber.VerifRouteMatch(rt, pathDet[ci][i], pathPath[ci][i]) {
								handles[ci][k][pi][m] |= 1 << pathCanon[ci][i]
							}
						}
						tree := fiber.VerifTree(app, m)
						keys := make([]int, 0, len(tree))
						for key, rs := range tree {
							for _, r2 := range rs {
								if r2 == rt {
									keys = append(keys, key)
								}
							}
						}
						if len(keys) == 1 && keys[0] != 0 {
							loneKey[ci][k][pi][m] = keys[0]
						}
					}
				}
			}
		}
	}
}

func entryHandles(ci int, e entry, m, p int) bool {
	return handles[ci][e.kind][e.pat][m]&(1<<uint(p)) != 0
}

// ---- the reference dispatcher -----------------------------------------------------------------

const maxTrace = 24

type refResult struct {
	n      int
	trace  [4]uint8 // positions (indices into the table) of the handlers that run, in order
	eff    [4]uint8 // per step: 0 = no effective override, 1 = path changed, 2 = method changed
	stM    [5]uint8 // method before step k (stM[n] = final)
	stP    [5]uint8 // canonical path index before step k (stP[n] = final)
	reply  bool     // chain ended with a reply (status 200)
	spec   bool     // end of chain: status/Allow are specified by the statement
	status int
	allow  uint16 // bit per method index
}

// refDispatch is the specification: a linear scan over the registration list in registration
// order. Entry i runs iff it individually handles the CURRENT (method, path) and its predecessor
// called Next; after an override the scan simply continues with the later-registered entries under
// the new method/path. No bucket map, no cursor into a per-bucket slice.
func refDispatch(ci int, tbl []entry, m, p int) (r refResult) {
	ranEndpoint := false
	for i, e := range tbl {
		if !entryHandles(ci, e, m, p) {
			continue
		}
		r.stM[r.n], r.stP[r.n] = uint8(m), uint8(p)
		r.trace[r.n] = uint8(i)
		if e.kind != kUSE {
			ranEndpoint = true
		}
		switch e.beh {
		case bReply:
			r.n++
			r.stM[r.n], r.stP[r.n] = uint8(m), uint8(p)
			r.reply, r.spec, r.status = true, true, 200
			return r
		case bPathABC, bPathX:
			np := idxABC
			if e.beh == bPathX {
				np = idxX
			}
			np = int(pathCanon[ci][np])
			if np != p {
				r.eff[r.n] = 1
			}
			p = np
		case bMethPost:
			if m != mPOST {
				r.eff[r.n] = 2
			}
			m = mPOST
		}
		r.n++
	}
	r.stM[r.n], r.stP[r.n] = uint8(m), uint8(p)
	// End of chain. The statement fixes the reply only "when no endpoint matches".
	if ranEndpoint {
		return r // an endpoint ran and passed on: unspecified
	}
	for _, e := range tbl {
		if e.kind != kUSE && entryHandles(ci, e, m, p) {
			return r // only reachable after an override: a same-method endpoint exists but is registered earlier: unspecified
		}
	}
	r.spec, r.status = true, 404
	for om := 0; om < nMeth; om++ {
		if om == m {
			continue
		}
		for _, e := range tbl {
			if e.kind != kUSE && entryHandles(ci, e, om, p) {
				r.allow |= 1 << uint(om)
				r.status = 405
				break
			}
		}
	}
	return r
}
