package main

// Reference side of C01: the alphabet, the "does entry X handle (method, path)?" table obtained
// from the REAL per-route matcher on route objects of single-registration apps, and the linear
// reference dispatcher (no bucket map, no cursor).

import (
	"fmt"

	"github.com/gofiber/fiber/v3"

	"verifmc/core"
)

// ---- alphabet --------------------------------------------------------------------------------

const (
	kGET = iota
	kPOST
	kUSE
	kALL
	kGRP // GET registered inside app.Group("/ab")
	// kinds of the full alphabet end here; the two below are the other multi-method registration sites
	// (Registering.Add, Group.Add) and only occur in the same-path family
	kRTADD // app.Route(p).Add([GET, POST], ...)
	kGRALL // app.Group("/").All(p, ...)
	// ---- kinds of the side families (side.go) ----
	// methods family: every other method of the default list through its own registration method, an extension
	// method (only valid under a configuration whose RequestMethods names it) and lower-case method names
	kHEAD
	kPUT
	kDELETE
	kCONNECT
	kOPTIONS
	kTRACE
	kPATCH
	kPURGE  // app.Add([]string{"PURGE"}, p, ...)
	kADDLOW // app.Add([]string{"get", "delete"}, p, ...)
	// registration-site family
	kUSE0     // app.Use(h...): no prefix argument (the entry's pattern is not used; alphabets pair it with "/" only)
	kUSEMULTI // app.Use([]string{p, "/x"}, h...): two prefixes = two routes per method stack, one handler slice
	kRTGET    // app.Route(p).Get(h...)
	kRTALL    // app.Route(p).All(h...): a middleware registration
	kGMW      // app.Group(p, h...): the group's own middleware, no route in it
	kGUSE     // app.Group("/ab").Use(p, h...)
	kNOSLASH  // app.Get(p without its leading slash, h...)
	nKinds
)

const nFullKinds = kGRP + 1

var kindNames = [nKinds]string{"GET", "POST", "USE", "ALL", "GROUP(/ab).GET", "ROUTE(p).ADD[GET,POST]", "GROUP(/).ALL",
	"HEAD", "PUT", "DELETE", "CONNECT", "OPTIONS", "TRACE", "PATCH", "ADD[PURGE]", "ADD[get,delete]",
	"USE(no-prefix)", "USE([p,/x])", "ROUTE(p).GET", "ROUTE(p).ALL", "GROUP(p,mw)", "GROUP(/ab).USE", "GET(p-without-slash)"}

// kindMethod: the method name a kind needs in the configuration's RequestMethods ("" = none in particular).
var kindMethod = [nKinds]string{kHEAD: "HEAD", kPUT: "PUT", kDELETE: "DELETE", kCONNECT: "CONNECT", kOPTIONS: "OPTIONS",
	kTRACE: "TRACE", kPATCH: "PATCH", kPURGE: "PURGE", kPOST: "POST", kGET: "GET", kGRP: "GET", kRTGET: "GET", kNOSLASH: "GET"}

// kindIsUse: the registration is a middleware (prefix match, never an endpoint).
func kindIsUse(k uint8) bool {
	switch k {
	case kUSE, kUSE0, kUSEMULTI, kRTALL, kGMW, kGUSE:
		return true
	}
	return false
}

// kindUnits: number of routes ONE registration call of this kind creates per method stack.
func kindUnits(k uint8) int {
	if k == kUSEMULTI {
		return 2
	}
	return 1
}

const maxUnits = 2

// chainLens: number of handlers passed in ONE registration call (entry.cl indexes it). All but the last are
// plain Next() pass-throughs, the last one has the entry's behaviour. 5 is the smallest length at which the
// slice built by the Add methods (`append([]Handler{h}, hs...)`) has spare capacity (Go rounds 40 bytes up to
// the 48-byte size class), i.e. where a later in-place append can be seen through another route object
// sharing the array.
var chainLens = [...]int{1, 5}

const (
	nLens    = len(chainLens)
	maxChain = 5
)

const (
	bReply = iota
	bNext
	bPathABC
	bPathX
	bMethPost
	// behaviours of the full alphabet end here; the ones below only occur in the side families
	bPathUpper    // Path("/ABC")+Next: override target that needs case folding
	bPathSlash    // Path("/abc/")+Next: ... trailing-slash trimming (non-strict)
	bPathEscaped  // Path("/%61bc")+Next: ... unescaping (UnescapePath)
	bPathShort    // Path("/a")+Next: target shorter than the 3-byte bucket key
	bPathShortSl  // Path("/a/")+Next: 3 bytes only before trimming
	bMethDelete   // Method("DELETE")+Next: a method stack beyond GET/HEAD/POST/PUT
	bMethInvalid  // Method("BREW")+Next: not a method of the app: documented as "no override"
	bPathXMethPst // Path("/x") and Method("POST") in ONE handler, then Next
	bError        // return fiber.NewError(403) without calling Next
	nBeh
)

const nFullBeh = bMethPost + 1

var behNames = [nBeh]string{"reply", "Next", `Path("/abc")+Next`, `Path("/x")+Next`, `Method("POST")+Next`,
	`Path("/ABC")+Next`, `Path("/abc/")+Next`, `Path("/%61bc")+Next`, `Path("/a")+Next`, `Path("/a/")+Next`,
	`Method("DELETE")+Next`, `Method("BREW")+Next`, `Path("/x")+Method("POST")+Next`, "return Error(403)"}

// behPathTarget / behMethTarget: the override a behaviour performs ("" = none).
var (
	behPathTarget = [nBeh]string{bPathABC: "/abc", bPathX: "/x", bPathUpper: "/ABC", bPathSlash: "/abc/", bPathEscaped: "/%61bc",
		bPathShort: "/a", bPathShortSl: "/a/", bPathXMethPst: "/x"}
	behMethTarget = [nBeh]string{bMethPost: "POST", bMethDelete: "DELETE", bMethInvalid: "BREW", bPathXMethPst: "POST"}
)

// patterns are chosen around the 3-byte bucket key: first constant shorter than / equal to / longer
// than 3 bytes, with and without optional slash, case-folded, escaped, plus the two rewrite targets.
var patterns = []string{
	"/", "/a", "/ab", "/abc", "/abc/", "/abcd", "/abc/d", "/a/:p?", "/ab/:p?", "/:p", "/abc/:p",
	"/*", "/abc/*", "/ABC", "/a b", `/ab\:c`, "/x", "/a/*",
	// unescaped / escaped twins of `/ab\:c` and "/a/*": same text once the escape characters are removed,
	// different routes (parameter vs. literal ':' / '*')
	"/ab:c", `/a/\*`,
	// ---- patterns of the side families only (not in the full alphabet) ----
	// escape character inside the first three bytes of the constant (the bucket key must be built from the text
	// without it)
	`/a\:b`,
}

// nFullPatterns: the patterns of the full alphabet (the main product never grows when a side family adds one).
const nFullPatterns = 20

// Same-path / multi-method family (both tiers): every table of exactly 3 entries over
// famKinds x famPatterns x famBehs x chainLens. The two patterns are an escaped/unescaped twin pair, so that
// consecutive registrations are either the same pattern (duplicate-path merging in one or several method
// stacks) or differ by the escape character only.
var (
	famKinds    = []int{kGET, kPOST, kUSE, kALL, kRTADD, kGRALL}
	famPatterns = []string{"/ab:c", `/ab\:c`}
	famBehs     = []int{bReply, bNext}
	famReqPaths = []string{"/abc", "/x", "/ab:c"}
)

// subPatterns is the sub-alphabet of the 3-entry pass of the thorough tier.
var subPatterns = []string{"/", "/ab", "/abc", "/a/:p?", "/:p", "/abc/:p", "/*", "/x"}

// subReqPaths are the request paths of the 3-entry pass (those the sub-alphabet can tell apart).
var subReqPaths = []string{"/", "/a", "/a/", "/ab", "/abc", "/abc/", "/ABC", "/abc/d", "/x", "/a/x"}

var reqPaths = []string{
	"/", "/a", "/a/", "/ab", "/ab/", "/abc", "/abc/", "/ABC", "/abcd", "/abc/d", "/abc/d/", "/x",
	"/a%20b", "/%61bc", "//", "/ab:c", "/ab/a", "/a/x", "/a/*",
	// ---- request paths of the side families only ----
	"/a:b",
}

// nFullReqPaths: the request paths of the main product.
const nFullReqPaths = 19

// Method universe: every method name a request or an Allow header can carry in this harness, in the order of
// the request-method ids ("rm"). The main product fires the first four. Stack indices ("m") are positions in
// the RequestMethods list of the configuration at hand and differ between configurations.
var methUniverse = []string{"GET", "POST", "HEAD", "PUT", "DELETE", "CONNECT", "OPTIONS", "TRACE", "PATCH", "PURGE"}

const (
	rmGET = iota
	rmPOST
	rmHEAD
	rmPUT
	rmDELETE
)

// nMeth bounds the number of method stacks of any configuration.
const nMeth = 10

var mainReqMethods = []int{rmGET, rmPOST, rmHEAD, rmPUT}

// methodLists: the RequestMethods settings. 0 = not configured (fiber's default list and its switch-based
// method lookup), 1 = the default list plus an extension method, 2 = a shorter list in another order that
// starts with the extension method.
var methodLists = [][]string{
	nil,
	append(append([]string{}, fiber.DefaultMethods...), "PURGE"),
	{"PURGE", "PATCH", "POST", "DELETE", "GET", "HEAD"},
}

type cfgT struct {
	CaseSensitive, StrictRouting, UnescapePath bool
	Methods                                    int `json:",omitempty"` // index into methodLists
}

// cfgs: the 8 routing configurations of the main product, then (side families) the two custom method lists
// under the all-default and the all-set routing flags.
var cfgs []cfgT

const nMainCfgs = 8

var mainCfgIdx, allCfgIdx, customMethodCfgIdx []int

func init() {
	for i := 0; i < nMainCfgs; i++ {
		cfgs = append(cfgs, cfgT{i&1 != 0, i&2 != 0, i&4 != 0, 0})
		mainCfgIdx = append(mainCfgIdx, i)
	}
	for ml := 1; ml < len(methodLists); ml++ {
		for _, f := range []bool{false, true} {
			customMethodCfgIdx = append(customMethodCfgIdx, len(cfgs))
			cfgs = append(cfgs, cfgT{f, f, f, ml})
		}
	}
	for i := range cfgs {
		allCfgIdx = append(allCfgIdx, i)
	}
}

// errStatus is a minimal ErrorHandler: it turns the router's *fiber.Error (404 / 405) into the response
// status exactly like the default one, minus the body and content type (not observed here; the
// Allow header is put on the response by the router before the error handler runs).
func errStatus(c fiber.Ctx, err error) error {
	code := fiber.StatusInternalServerError
	if e, ok := err.(*fiber.Error); ok { //nolint:errorlint // the router returns the value itself
		code = e.Code
	}
	c.Status(code)
	return nil
}

func (c cfgT) fiber() fiber.Config {
	return fiber.Config{CaseSensitive: c.CaseSensitive, StrictRouting: c.StrictRouting, UnescapePath: c.UnescapePath,
		RequestMethods: methodLists[c.Methods], ErrorHandler: errStatus}
}

// entry is one registration call: kind of call, pattern, behaviour of its last handler, and cl = index into
// chainLens (0: a single handler).
type entry struct{ kind, pat, beh, cl uint8 }

func (e entry) chain() int { return chainLens[e.cl] }

func (e entry) String() string {
	p := patterns[e.pat]
	hs := behNames[e.beh]
	if n := e.chain(); n > 1 {
		hs = fmt.Sprintf("%d x Next, %s", n-1, hs)
	}
	switch e.kind {
	case kUSE:
		return fmt.Sprintf("app.Use(%q, %s)", p, hs)
	case kALL:
		return fmt.Sprintf("app.All(%q, %s)", p, hs)
	case kGRP:
		return fmt.Sprintf("app.Group(\"/ab\").Get(%q, %s)", p, hs)
	case kPOST:
		return fmt.Sprintf("app.Post(%q, %s)", p, hs)
	case kRTADD:
		return fmt.Sprintf("app.Route(%q).Add([GET POST], %s)", p, hs)
	case kGRALL:
		return fmt.Sprintf("app.Group(\"/\").All(%q, %s)", p, hs)
	case kHEAD, kPUT, kDELETE, kCONNECT, kOPTIONS, kTRACE, kPATCH:
		n := kindNames[e.kind]
		return fmt.Sprintf("app.%s%s(%q, %s)", n[:1], lower(n[1:]), p, hs)
	case kPURGE:
		return fmt.Sprintf("app.Add([PURGE], %q, %s)", p, hs)
	case kADDLOW:
		return fmt.Sprintf("app.Add([get delete], %q, %s)", p, hs)
	case kUSE0:
		return fmt.Sprintf("app.Use(%s)", hs)
	case kUSEMULTI:
		return fmt.Sprintf("app.Use([%q \"/x\"], %s)", p, hs)
	case kRTGET:
		return fmt.Sprintf("app.Route(%q).Get(%s)", p, hs)
	case kRTALL:
		return fmt.Sprintf("app.Route(%q).All(%s)", p, hs)
	case kGMW:
		return fmt.Sprintf("app.Group(%q, %s)", p, hs)
	case kGUSE:
		return fmt.Sprintf("app.Group(\"/ab\").Use(%q, %s)", p, hs)
	case kNOSLASH:
		return fmt.Sprintf("app.Get(%q, %s)", p[1:], hs)
	}
	return fmt.Sprintf("app.Get(%q, %s)", p, hs)
}

func lower(s string) string {
	b := []byte(s)
	for i := range b {
		if b[i] >= 'A' && b[i] <= 'Z' {
			b[i] += 'a' - 'A'
		}
	}
	return string(b)
}

// register performs the registration of one entry on app with the handler chain hs (len >= 1).
func register(app *fiber.App, e entry, hs []fiber.Handler) {
	p := patterns[e.pat]
	h, rest := hs[0], hs[1:]
	useArgs := func(first any) []any {
		args := make([]any, 0, len(hs)+1)
		if first != nil {
			args = append(args, first)
		}
		for _, x := range hs {
			args = append(args, x)
		}
		return args
	}
	switch e.kind {
	case kGET:
		app.Get(p, h, rest...)
	case kPOST:
		app.Post(p, h, rest...)
	case kUSE:
		app.Use(useArgs(p)...)
	case kALL:
		app.All(p, h, rest...)
	case kGRP:
		app.Group("/ab").Get(p, h, rest...)
	case kRTADD:
		app.Route(p).Add([]string{fiber.MethodGet, fiber.MethodPost}, h, rest...)
	case kGRALL:
		app.Group("/").All(p, h, rest...)
	case kHEAD:
		app.Head(p, h, rest...)
	case kPUT:
		app.Put(p, h, rest...)
	case kDELETE:
		app.Delete(p, h, rest...)
	case kCONNECT:
		app.Connect(p, h, rest...)
	case kOPTIONS:
		app.Options(p, h, rest...)
	case kTRACE:
		app.Trace(p, h, rest...)
	case kPATCH:
		app.Patch(p, h, rest...)
	case kPURGE:
		app.Add([]string{"PURGE"}, p, h, rest...)
	case kADDLOW:
		app.Add([]string{"get", "delete"}, p, h, rest...)
	case kUSE0:
		app.Use(useArgs(nil)...)
	case kUSEMULTI:
		app.Use(useArgs([]string{p, "/x"})...)
	case kRTGET:
		app.Route(p).Get(h, rest...)
	case kRTALL:
		app.Route(p).All(h, rest...)
	case kGMW:
		// (Group keeps the variadic slice itself as the route's handler list: hand it a slice of its own, as a
		// call with handlers spelled out would; hs is the worker's reusable buffer)
		app.Group(p, append([]fiber.Handler(nil), hs...)...)
	case kGUSE:
		app.Group("/ab").Use(useArgs(p)...)
	case kNOSLASH:
		app.Get(p[1:], h, rest...)
	}
}

// ---- "handles" table from the real matcher ---------------------------------------------------

var (
	// per config and path index
	pathDet   [][]string
	pathPath  [][]string
	pathHash  [][]int
	pathCanon [][]uint8 // smallest index with the same (detection, path): "same path" for the router
	// per config: method names by stack index, stack index by request-method id (-1: not a method of the app)
	mlist    [][]string
	stackIdx [][]int
	// kindValid[cfg][kind]: the registration is possible under the configuration's method list
	kindValid [][nKinds]bool
	// handles[cfg][kind][pat][unit][method] = bitmask over canonical path indices
	handles [][nKinds][][maxUnits][nMeth]uint32
	// loneKey[cfg][kind][pat][unit][method] = key of the specific bucket the entry's route sits in (0 = global / no route)
	loneKey [][nKinds][][maxUnits][nMeth]int
	// behPathIdx[beh] = index in reqPaths of the path-override target (-1 = none)
	behPathIdx [nBeh]int
)

func rawIdx(p string) int {
	for i, q := range reqPaths {
		if p == q {
			return i
		}
	}
	core.Fatal("path %q is not in the request path table", p)
	return -1
}

func buildTables() {
	for b := range behPathIdx {
		behPathIdx[b] = -1
		if t := behPathTarget[b]; t != "" {
			behPathIdx[b] = rawIdx(t)
		}
	}
	n := len(cfgs)
	pathDet, pathPath, pathHash, pathCanon = make([][]string, n), make([][]string, n), make([][]int, n), make([][]uint8, n)
	mlist, stackIdx, kindValid = make([][]string, n), make([][]int, n), make([][nKinds]bool, n)
	handles = make([][nKinds][][maxUnits][nMeth]uint32, n)
	loneKey = make([][nKinds][][maxUnits][nMeth]int, n)
	nop := func(c fiber.Ctx) error { return nil }
	for ci, c := range cfgs {
		papp := fiber.New(c.fiber())
		mlist[ci] = append([]string{}, papp.Config().RequestMethods...)
		if len(mlist[ci]) > nMeth || len(mlist[ci]) != len(papp.Stack()) {
			core.Fatal("config %d: %d methods, %d stacks", ci, len(mlist[ci]), len(papp.Stack()))
		}
		stackIdx[ci] = make([]int, len(methUniverse))
		for u, name := range methUniverse {
			stackIdx[ci][u] = -1
			for m, x := range mlist[ci] {
				if x == name {
					stackIdx[ci][u] = m
				}
			}
		}
		for m, x := range mlist[ci] { // every method of the app must be nameable in an Allow header
			if fiber.VerifMethodInt(papp, x) != m {
				core.Fatal("config %d: method %s is not at stack index %d", ci, x, m)
			}
			found := false
			for _, name := range methUniverse {
				found = found || name == x
			}
			if !found {
				core.Fatal("method %s is not in the method universe", x)
			}
		}
		for _, raw := range reqPaths {
			d, p, h := fiber.VerifPaths(papp, raw)
			pathDet[ci] = append(pathDet[ci], d)
			pathPath[ci] = append(pathPath[ci], p)
			pathHash[ci] = append(pathHash[ci], h)
		}
		pathCanon[ci] = make([]uint8, len(reqPaths))
		for i := range reqPaths {
			pathCanon[ci][i] = uint8(i)
			for j := 0; j < i; j++ {
				if pathDet[ci][j] == pathDet[ci][i] && pathPath[ci][j] == pathPath[ci][i] {
					pathCanon[ci][i] = uint8(j)
					break
				}
			}
		}
		for k := 0; k < nKinds; k++ {
			handles[ci][k] = make([][maxUnits][nMeth]uint32, len(patterns))
			loneKey[ci][k] = make([][maxUnits][nMeth]int, len(patterns))
			kindValid[ci][k] = true
			if need := kindMethod[k]; need != "" {
				kindValid[ci][k] = fiber.VerifMethodInt(papp, need) >= 0
			}
			if k == kADDLOW {
				kindValid[ci][k] = fiber.VerifMethodInt(papp, "GET") >= 0 && fiber.VerifMethodInt(papp, "DELETE") >= 0
			}
			if k == kRTADD {
				kindValid[ci][k] = fiber.VerifMethodInt(papp, "GET") >= 0 && fiber.VerifMethodInt(papp, "POST") >= 0
			}
			if !kindValid[ci][k] {
				continue
			}
			for pi := range patterns {
				// the entry ALONE in a fresh app: "individually matches", independent of any other route
				app := fiber.New(c.fiber())
				register(app, entry{uint8(k), uint8(pi), bReply, 0}, []fiber.Handler{nop})
				app.Handler()
				stack := app.Stack()
				for m := range stack {
					if len(stack[m]) > kindUnits(uint8(k)) {
						core.Fatal("single registration of kind %s produced %d routes for one method", kindNames[k], len(stack[m]))
					}
					for u := 0; u < kindUnits(uint8(k)) && len(stack[m]) > 0; u++ {
						// (a call with the same prefix twice is merged into one route object holding the handlers twice)
						rt := stack[m][min(u, len(stack[m])-1)]
						use, _, _ := fiber.VerifRouteFlags(rt)
						if use != kindIsUse(uint8(k)) {
							core.Fatal("use flag of %v is %v", entry{uint8(k), uint8(pi), 0, 0}, use)
						}
						for i := range reqPaths {
							if fiber.VerifRouteMatch(rt, pathDet[ci][i], pathPath[ci][i]) {
								handles[ci][k][pi][u][m] |= 1 << pathCanon[ci][i]
							}
						}
						tree := fiber.VerifTree(app, m)
						keys := make([]int, 0, len(tree))
						for key, rs := range tree {
							for _, r2 := range rs {
								if r2 == rt {
									keys = append(keys, key)
								}
							}
						}
						if len(keys) == 1 && keys[0] != 0 {
							loneKey[ci][k][pi][u][m] = keys[0]
						}
					}
				}
			}
		}
	}
}

// unitHandles: does the u-th route of entry e individually match (method stack m, canonical path p)?
func unitHandles(ci int, e entry, u, m, p int) bool {
	return handles[ci][e.kind][e.pat][u][m]&(1<<uint(p)) != 0
}

// entryHandles: does any route of entry e individually match?
func entryHandles(ci int, e entry, m, p int) bool {
	return (handles[ci][e.kind][e.pat][0][m]|handles[ci][e.kind][e.pat][1][m])&(1<<uint(p)) != 0
}

// ---- the reference dispatcher -----------------------------------------------------------------

const (
	maxTrace = 24
	maxRef   = 6
)

type refResult struct {
	n      int
	trace  [maxRef]uint8     // positions (indices into the table) of the handlers that run, in order
	eff    [maxRef]uint8     // per step: 0 = no effective override, 1 = path changed, 2 = method changed, 3 = both
	stM    [maxRef + 1]uint8 // method before step k (stM[n] = final)
	stP    [maxRef + 1]uint8 // canonical path index before step k (stP[n] = final)
	reply  bool              // chain ended with a reply (status 200)
	failed bool              // chain ended with a handler returning an error without calling Next (status not judged)
	spec   bool              // end of chain: status/Allow are specified by the statement
	no405  bool              // end of chain, !spec: an endpoint matching the FINAL (method, path) ran and called Next: "no endpoint matches" is false, so the reply must not be 405 (nothing else about it is fixed)
	status int
	allow  uint16 // bit per method stack index
}

// refDispatch is the specification: a linear scan over the registration list in registration
// order. Entry i runs iff it individually handles the CURRENT (method, path) and its predecessor
// called Next; after an override the scan simply continues with the later-registered entries under
// the new method/path. No bucket map, no cursor into a per-bucket slice. (A registration call with two
// prefixes is two consecutive routes.)
func refDispatch(ci int, tbl []entry, m, p int) (r refResult) {
	ranEndpoint := false
	var epM, epP [maxRef]uint8 // (method, path) under which the endpoints that ran were matched
	nEP := 0
	for i, e := range tbl {
		for u := 0; u < kindUnits(e.kind); u++ {
			if !unitHandles(ci, e, u, m, p) {
				continue
			}
			if r.n == maxRef {
				core.Fatal("reference trace longer than %d: %v", maxRef, tbl)
			}
			r.stM[r.n], r.stP[r.n] = uint8(m), uint8(p)
			r.trace[r.n] = uint8(i)
			if !kindIsUse(e.kind) {
				ranEndpoint = true
				epM[nEP], epP[nEP] = uint8(m), uint8(p)
				nEP++
			}
			switch e.beh {
			case bReply:
				r.n++
				r.stM[r.n], r.stP[r.n] = uint8(m), uint8(p)
				r.reply, r.spec, r.status = true, true, 200
				return r
			case bError:
				r.n++
				r.stM[r.n], r.stP[r.n] = uint8(m), uint8(p)
				r.failed = true
				return r
			}
			if t := behPathIdx[e.beh]; t >= 0 {
				np := int(pathCanon[ci][t])
				if np != p {
					r.eff[r.n] |= 1
				}
				p = np
			}
			if t := behMethTarget[e.beh]; t != "" {
				// an argument that is not a method of the app is documented as "no override"
				for nm, name := range mlist[ci] {
					if name == t {
						if nm != m {
							r.eff[r.n] |= 2
						}
						m = nm
					}
				}
			}
			r.n++
		}
	}
	r.stM[r.n], r.stP[r.n] = uint8(m), uint8(p)
	// End of chain. The statement fixes the reply only "when no endpoint matches".
	if ranEndpoint {
		// An endpoint ran and passed on: which reply follows is unspecified -- except that 405 + Allow is the reply
		// "when no endpoint matches": if one of the endpoints that ran was matched under the very method and path the
		// chain ends with, an endpoint of the request's method does match, whatever matched after it.
		for k := 0; k < nEP; k++ {
			if int(epM[k]) == m && int(epP[k]) == p {
				r.no405 = true
			}
		}
		return r
	}
	for _, e := range tbl {
		if !kindIsUse(e.kind) && entryHandles(ci, e, m, p) {
			return r // only reachable after an override: a same-method endpoint exists but is registered earlier: unspecified
		}
	}
	r.spec, r.status = true, 404
	for om := range mlist[ci] {
		if om == m {
			continue
		}
		for _, e := range tbl {
			if !kindIsUse(e.kind) && entryHandles(ci, e, om, p) {
				r.allow |= 1 << uint(om)
				r.status = 405
				break
			}
		}
	}
	return r
}
