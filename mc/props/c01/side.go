package main

// Side families: small separate explorations next to the main product (every table of <=2 entries over the full
// alphabet). Each adds ONE dimension the main product keeps fixed, is enumerated exhaustively over its own small
// alphabet and is judged by the same linear reference dispatcher:
//
//	methods            registrations for every method of the app (own registration method, lower-case names, an
//	                   extension method), requests with every method, Method() overrides to a far stack / to a
//	                   name the app does not have, and two custom RequestMethods lists (extended; shorter + reordered)
//	override_targets   Path() overrides whose target needs the same normalisation as a request path (case folding,
//	                   trailing slash, escapes, shorter than the bucket key), path and method overridden by ONE
//	                   handler, a handler that returns an error without calling Next
//	late_registration  entries registered after start-up (app.Handler() + a round of requests), then RebuildTree()
//	registration_sites Use without prefix / with a prefix list, Route(p).Get / .All, Group(p, middleware),
//	                   Group(..).Use, a pattern without its leading slash, an escape inside the bucket key
//	chain_end          table LENGTH: every table of exactly 3 and 4 entries over a reduced alphabet (endpoints of two
//	                   methods + Use x a literal and a parameter pattern x reply/Next), i.e. every order of
//	                   {middleware before / between / after endpoints, endpoints that pass on, endpoints of the other
//	                   method}: what the END of a chain of three and four matches replies (404 / 405 + Allow / not 405
//	                   once an endpoint of the request's method ran)
//
// Violations found here keep the class names of sig.go; a deviation that disappears when the new dimension is
// taken away gets an `only-with=` suffix (judge in main.go).

import (
	"fmt"
)

const (
	famMain = iota
	famMethods
	famOverrides
	famLate
	famSites
	famEnd
	nFams
)

var famNames = [nFams]string{"main", "methods", "override_targets", "late_registration", "registration_sites", "chain_end"}

var (
	// methods family
	metKinds    = []int{kGET, kPOST, kHEAD, kPUT, kDELETE, kCONNECT, kOPTIONS, kTRACE, kPATCH, kPURGE, kADDLOW, kUSE, kALL}
	metPatterns = []string{"/abc", "/a/:p?"}
	metBehs     = []int{bReply, bNext, bMethDelete, bMethInvalid}
	metReqPaths = []string{"/abc", "/a", "/a/x", "/x"}
	// override-target family: [override, target] and [before, override, target]
	ovrKinds       = []int{kUSE, kGET, kALL}
	ovrPatterns    = []string{"/x", "/abc"}
	ovrBehs        = []int{bPathUpper, bPathSlash, bPathEscaped, bPathShort, bPathShortSl, bPathXMethPst, bError}
	ovrTgtKinds    = []int{kGET, kPOST, kUSE}
	ovrTgtPatterns = []string{"/abc", "/abc/", "/ABC", "/a/:p?", "/a", "/x"}
	ovrTgtBehs     = []int{bReply, bNext}
	ovrPreKinds    = []int{kGET, kUSE}
	ovrPrePatterns = []string{"/abc", "/x", "/a/:p?"}
	ovrReqPaths    = []string{"/x", "/abc", "/ABC", "/abc/", "/a", "/a/", "/%61bc", "/a/x"}
	// late-registration family
	lateKinds     = []int{kGET, kPOST, kUSE, kALL}
	latePatterns  = []string{"/abc", "/a/:p?", "/:p", "/x"}
	lateBehs      = []int{bReply, bNext, bPathX}
	late3Kinds    = []int{kGET, kUSE}
	late3Patterns = []string{"/abc", "/a/:p?", "/x"}
	lateReqPaths  = []string{"/abc", "/a", "/a/x", "/x"}
	// registration-site family
	siteKinds     = []int{kUSEMULTI, kRTGET, kRTALL, kGMW, kGUSE, kNOSLASH}
	sitePatterns  = []string{"/", "/abc", "/x", `/a\:b`}
	siteBehs      = []int{bReply, bNext}
	siteCoreKinds = []int{kGET, kPOST, kUSE, kALL}
	siteCoreBehs  = []int{bReply, bNext, bPathX}
	siteReqPaths  = []string{"/", "/abc", "/x", "/a:b", "/ab", "/ab/a", "/abc/d"}
	// chain-end family (thorough: one more kind and pattern)
	endKinds        = []int{kGET, kPOST, kUSE}
	endPatterns     = []string{"/abc", "/:p"}
	endKindsThor    = []int{kGET, kPOST, kUSE, kALL}
	endPatternsThor = []string{"/", "/abc", "/:p"}
	endBehs         = []int{bReply, bNext}
	endReqPaths     = []string{"/", "/abc", "/x", "/abc/d"}
)

var (
	allReqMethods  = []int{0, 1, 2, 3, 4, 5, 6, 7, 8, 9}
	lateReqMethods = []int{rmGET, rmPOST, rmHEAD}
	ovrReqMethods  = []int{rmGET, rmPOST}
)

type sideSizes struct{ tables [nFams]int }

var sideTables sideSizes

// sideItems lists the work items of the side families (both tiers; thorough widens two of them).
func sideItems(quick bool) []item {
	var items []item
	add := func(fam int, prefix []entry, last []entry, paths, meths, cfgIdx []int, late int) {
		items = append(items, item{prefix: prefix, last: last, paths: paths, meths: meths, cfgs: cfgIdx, late: late, fam: fam})
		sideTables.tables[fam] += len(last)
	}

	// ---- methods: every table of 1 and 2 entries; the custom method lists and two (thorough: all) routing configs
	met := alphabetOver(metKinds, metPatterns, metBehs, 1)
	metCfgs := append([]int{0, nMainCfgs - 1}, customMethodCfgIdx...)
	if !quick {
		metCfgs = allCfgIdx
	}
	metPaths := pathIdx(metReqPaths)
	add(famMethods, nil, met, metPaths, allReqMethods, metCfgs, 0)
	for _, e1 := range met {
		add(famMethods, []entry{e1}, met, metPaths, allReqMethods, metCfgs, 0)
	}

	// ---- override targets / handler behaviours
	ovr := alphabetOver(ovrKinds, ovrPatterns, ovrBehs, 1)
	tgt := alphabetOver(ovrTgtKinds, ovrTgtPatterns, ovrTgtBehs, 1)
	pre := alphabetOver(ovrPreKinds, ovrPrePatterns, []int{bNext}, 1)
	ovrPaths := pathIdx(ovrReqPaths)
	add(famOverrides, nil, ovr, ovrPaths, ovrReqMethods, mainCfgIdx, 0)
	for _, o := range ovr {
		add(famOverrides, []entry{o}, tgt, ovrPaths, ovrReqMethods, mainCfgIdx, 0)
		for _, p := range pre {
			add(famOverrides, []entry{p, o}, tgt, ovrPaths, ovrReqMethods, mainCfgIdx, 0)
		}
	}

	// ---- late registration: [e1 | e2], [ | e1 e2]; thorough: [e1 e2 | e3], [e1 | e2 e3] over a sub-alphabet
	lat := alphabetOver(lateKinds, latePatterns, lateBehs, 1)
	latePaths := pathIdx(lateReqPaths)
	for _, e1 := range lat {
		add(famLate, []entry{e1}, lat, latePaths, lateReqMethods, mainCfgIdx, 1)
		add(famLate, []entry{e1}, lat, latePaths, lateReqMethods, mainCfgIdx, 2)
	}
	if !quick {
		lat3 := alphabetOver(late3Kinds, late3Patterns, lateBehs, 1)
		for _, e1 := range lat3 {
			for _, e2 := range lat3 {
				add(famLate, []entry{e1, e2}, lat3, latePaths, lateReqMethods, mainCfgIdx, 1)
				add(famLate, []entry{e1, e2}, lat3, latePaths, lateReqMethods, mainCfgIdx, 2)
			}
		}
	}

	// ---- registration sites: [site, core], [core, site], [site, site]
	site := alphabetOver(siteKinds, sitePatterns, siteBehs, 1)
	site = append(site, alphabetOver([]int{kUSE0}, []string{"/"}, siteBehs, 1)...)
	for _, e := range alphabetOver([]int{kUSEMULTI}, sitePatterns, siteBehs, nLens) {
		if e.cl != 0 {
			site = append(site, e) // five handlers in one call: the slice Use builds is shared by both prefixes' routes
		}
	}
	coreA := alphabetOver(siteCoreKinds, sitePatterns, siteCoreBehs, 1)
	sitePaths := pathIdx(siteReqPaths)
	add(famSites, nil, site, sitePaths, lateReqMethods, mainCfgIdx, 0)
	for _, s := range site {
		add(famSites, []entry{s}, coreA, sitePaths, lateReqMethods, mainCfgIdx, 0)
		add(famSites, []entry{s}, site, sitePaths, lateReqMethods, mainCfgIdx, 0)
	}
	for _, c := range coreA {
		add(famSites, []entry{c}, site, sitePaths, lateReqMethods, mainCfgIdx, 0)
	}

	// ---- chain end: every table of exactly 3 and 4 entries over the reduced alphabet
	end := alphabetOver(endKinds, endPatterns, endBehs, 1)
	if !quick {
		end = alphabetOver(endKindsThor, endPatternsThor, endBehs, 1)
	}
	endPaths := pathIdx(endReqPaths)
	for _, e1 := range end {
		for _, e2 := range end {
			add(famEnd, []entry{e1, e2}, end, endPaths, lateReqMethods, mainCfgIdx, 0)
			for _, e3 := range end {
				add(famEnd, []entry{e1, e2, e3}, end, endPaths, lateReqMethods, mainCfgIdx, 0)
			}
		}
	}
	return items
}

// famHit: this evaluation decides something only the family's new dimension can decide (anti-vacuity counter).
func famHit(fam, ci int, tbl []entry, late, rm int, ref *refResult) bool {
	if ref.n == 0 && ref.status != 405 {
		return false
	}
	switch fam {
	case famMethods:
		if cfgs[ci].Methods != 0 || rm >= rmDELETE {
			return true
		}
		for om, name := range mlist[ci] {
			if ref.allow&(1<<uint(om)) != 0 && name != "GET" && name != "POST" {
				return true
			}
		}
		for k := 0; k < ref.n; k++ {
			if e := tbl[ref.trace[k]]; e.kind >= kHEAD && e.kind <= kADDLOW || (e.beh == bMethDelete && ref.eff[k] != 0) {
				return true
			}
		}
	case famOverrides:
		for k := 0; k < ref.n; k++ {
			if b := tbl[ref.trace[k]].beh; b == bError || (b >= nFullBeh && ref.eff[k] != 0 && k+1 < ref.n) {
				return true // an entry ran AFTER an effective override of the new kind / the chain ended by an error
			}
		}
	case famLate:
		for k := 0; k < ref.n; k++ {
			if late > 0 && int(ref.trace[k]) >= len(tbl)-late {
				return true
			}
		}
	case famSites:
		for k := 0; k < ref.n; k++ {
			if tbl[ref.trace[k]].kind >= kUSE0 {
				return true
			}
		}
	case famEnd:
		// the end of a chain of >= 3 matches decides: nothing replied, and either 404/405 is fixed, or an endpoint of the
		// request's method ran, a LATER entry matched after it and another method has an endpoint on the path
		if ref.reply || ref.n < 3 {
			return false
		}
		if ref.spec {
			return true
		}
		if ref.no405 && kindIsUse(tbl[ref.trace[ref.n-1]].kind) {
			m, p := int(ref.stM[ref.n]), int(ref.stP[ref.n])
			for om := range mlist[ci] {
				for _, e := range tbl {
					if om != m && !kindIsUse(e.kind) && entryHandles(ci, e, om, p) {
						return true
					}
				}
			}
		}
	}
	return false
}

func behNamesOf(bs []int) []string {
	var out []string
	for _, b := range bs {
		out = append(out, behNames[b])
	}
	return out
}

func sideBounds(quick bool) map[string]any {
	metCfg := "routing flags all-default and all-set with the default method list + the custom lists under the same two flag sets"
	if !quick {
		metCfg = "all 8 routing configs with the default method list + the custom lists under the all-default and all-set flags"
	}
	late := "[e1 | e2] and [ | e1 e2] (| = start-up)"
	if !quick {
		late += "; [e1 e2 | e3] and [e1 | e2 e3] over kinds " + fmt.Sprint(kindNamesOf(late3Kinds)) + " x patterns " + fmt.Sprint(late3Patterns)
	}
	endK, endP := endKinds, endPatterns
	if !quick {
		endK, endP = endKindsThor, endPatternsThor
	}
	return map[string]any{
		"chain_end": map[string]any{
			"kinds": kindNamesOf(endK), "patterns": endP, "behaviours": behNamesOf(endBehs), "table_lengths": []int{3, 4},
			"request_methods": []string{"GET", "POST", "HEAD"}, "request_paths": endReqPaths, "configs": 8, "tables": sideTables.tables[famEnd],
		},
		"methods": map[string]any{
			"kinds": kindNamesOf(metKinds), "patterns": metPatterns, "behaviours": behNamesOf(metBehs), "max_entries": 2,
			"request_methods": methUniverse, "request_paths": metReqPaths, "configs": metCfg,
			"custom_request_methods": methodLists[1:], "tables": sideTables.tables[famMethods],
		},
		"override_targets": map[string]any{
			"overriding_entry": map[string]any{"kinds": kindNamesOf(ovrKinds), "patterns": ovrPatterns, "behaviours": behNamesOf(ovrBehs)},
			"target_entry":     map[string]any{"kinds": kindNamesOf(ovrTgtKinds), "patterns": ovrTgtPatterns, "behaviours": behNamesOf(ovrTgtBehs)},
			"entry_before":     map[string]any{"kinds": kindNamesOf(ovrPreKinds), "patterns": ovrPrePatterns, "behaviours": []string{behNames[bNext]}},
			"shapes":           "[override], [override, target], [before, override, target]",
			"request_methods":  []string{"GET", "POST"}, "request_paths": ovrReqPaths, "configs": 8, "tables": sideTables.tables[famOverrides],
		},
		"late_registration": map[string]any{
			"kinds": kindNamesOf(lateKinds), "patterns": latePatterns, "behaviours": behNamesOf(lateBehs), "shapes": late,
			"request_methods": []string{"GET", "POST", "HEAD"}, "request_paths": lateReqPaths, "configs": 8, "tables": sideTables.tables[famLate],
		},
		"registration_sites": map[string]any{
			"site_kinds": append(kindNamesOf(siteKinds), kindNames[kUSE0]), "patterns": sitePatterns, "site_behaviours": behNamesOf(siteBehs),
			"core_kinds": kindNamesOf(siteCoreKinds), "core_behaviours": behNamesOf(siteCoreBehs),
			"shapes":          "[site], [site, core], [core, site], [site, site]; USE([p,/x]) also with 5 handlers in the call",
			"request_methods": []string{"GET", "POST", "HEAD"}, "request_paths": siteReqPaths, "configs": 8, "tables": sideTables.tables[famSites],
		},
	}
}

func sideRule() string {
	return "methods: every table of <=2 entries over registrations for each of the app's methods (own registration method, Add with lower-case names, an extension method) + Use + All, fired with all 10 method names, under the default and two custom RequestMethods lists; " +
		"override_targets: every [override], [override, target] and [before, override, target] table with Path() targets needing case folding / slash trimming / unescaping / shorter than the bucket key, path+method overridden by one handler, and a handler returning an error; " +
		"late_registration: every 2-entry table split before/after start-up (all entries late, or the last one), requests before and after app.RebuildTree(); " +
		"registration_sites: every 1- and 2-entry table mixing Use without prefix / with a prefix list, Route(p).Get/.All, Group(p, mw), Group(/ab).Use and a slash-less pattern with the core kinds; " +
		"chain_end: every table of exactly 3 and exactly 4 entries over GET/POST/Use (thorough: + All) x a literal and a parameter pattern (thorough: + \"/\") x reply/Next, so that every order of middleware before/between/after endpoints of the request's and of another method occurs and the reply at the end of a chain of 3 and 4 matches is judged (404, 405 + exact Allow set, or 'not 405' once an endpoint of the final method and path ran)"
}
