// Package core is the shared run-time of every property check: flags, counters,
// distinct-outcome sets, violation recording with signatures, known-findings
// matching, replay files, worker sharding/merging and the evidence writer.
package core

import (
	"bufio"
	"crypto/sha1"
	"encoding/hex"
	"encoding/json"
	"flag"
	"fmt"
	"os"
	"os/exec"
	"path/filepath"
	"runtime"
	"sort"
	"strconv"
	"strings"
	"sync"
	"sync/atomic"
	"time"
)

// VerifDir is the root of the verification tree.
var VerifDir = envOr("VERIF_DIR", "/verif")

func envOr(k, d string) string {
	if v := os.Getenv(k); v != "" {
		return v
	}
	return d
}

// Violation is one failing case, identified by a narrow signature.
type Violation struct {
	Signature string `json:"signature"`
	What      string `json:"what"`
	Case      any    `json:"case"`
	Observed  any    `json:"observed,omitempty"`
	Expected  any    `json:"expected,omitempty"`
	Harness   string `json:"harness,omitempty"`
	Count     int64  `json:"count"`
}

// Partial is what one worker contributes; partials merge associatively.
type Partial struct {
	Counters   map[string]int64      `json:"counters"`
	Outcomes   map[string]int64      `json:"outcomes"`
	Violations map[string]*Violation `json:"violations"`
	Samples    []any                 `json:"samples"`
	Caps       []string              `json:"caps"`
	Notes      []string              `json:"notes"`
}

func newPartial() *Partial {
	return &Partial{Counters: map[string]int64{}, Outcomes: map[string]int64{}, Violations: map[string]*Violation{}}
}

// Run is the state of one check run (or of one worker of it).
type Run struct {
	Prop     string
	Tier     string
	Seed     int64
	Replay   string
	Worker   int // -1 = parent / single process
	NWorkers int
	Out      string
	Deadline time.Time
	Start    time.Time

	mu sync.Mutex
	P  *Partial

	maxSamples int
	sampleSeen int64
}

// Start parses the common flags. Extra flags may be registered before calling it.
func Start(prop string) *Run {
	r := &Run{Prop: prop, P: newPartial(), Start: time.Now(), maxSamples: 6}
	tier := flag.String("tier", envOr("VERIF_TIER", "quick"), "quick|thorough")
	replay := flag.String("replay", "", "replay file")
	worker := flag.Int("worker", -1, "worker index (internal)")
	nworkers := flag.Int("nworkers", 0, "number of workers (internal)")
	out := flag.String("out", "", "partial output file (internal)")
	budget := flag.Duration("budget", 0, "wall-clock budget; when exceeded the run ends with exhaustive:false")
	flag.Parse()
	r.Tier = *tier
	if r.Tier != "quick" && r.Tier != "thorough" {
		r.Tier = "quick"
	}
	r.Replay = *replay
	r.Worker = *worker
	r.NWorkers = *nworkers
	r.Out = *out
	if s := os.Getenv("VERIF_SEED"); s != "" {
		if v, err := strconv.ParseInt(s, 10, 64); err == nil {
			r.Seed = v
		}
	}
	if *budget == 0 && r.Tier == "thorough" && r.Worker < 0 {
		*budget = 20 * time.Minute // default wall-clock budget of a thorough run; ends with exhaustive:false, exit 0
	}
	if *budget > 0 {
		r.Deadline = r.Start.Add(*budget)
	}
	return r
}

// Quick reports whether this is the quick tier.
func (r *Run) Quick() bool { return r.Tier == "quick" }

// Expired reports whether the wall-clock budget is used up.
func (r *Run) Expired() bool { return !r.Deadline.IsZero() && time.Now().After(r.Deadline) }

// Cap records that a cap stopped part of the exploration.
func (r *Run) Cap(s string) {
	r.mu.Lock()
	defer r.mu.Unlock()
	for _, c := range r.P.Caps {
		if c == s {
			return
		}
	}
	r.P.Caps = append(r.P.Caps, s)
	capped.Store(true)
}

// Note adds a free-text note to the evidence.
func (r *Run) Note(s string) {
	r.mu.Lock()
	defer r.mu.Unlock()
	if len(r.P.Notes) < 50 {
		r.P.Notes = append(r.P.Notes, s)
	}
}

// Add increments a named counter.
func (r *Run) Add(name string, n int64) {
	r.mu.Lock()
	r.P.Counters[name] += n
	r.mu.Unlock()
}

// Outcome records one occurrence of a distinct observable outcome.
func (r *Run) Outcome(key string) {
	r.mu.Lock()
	r.P.Outcomes[key]++
	r.mu.Unlock()
}

// Sample keeps a few of the explored cases (rotated by seed).
func (r *Run) Sample(v any) {
	r.mu.Lock()
	defer r.mu.Unlock()
	r.sampleSeen++
	if len(r.P.Samples) < r.maxSamples {
		r.P.Samples = append(r.P.Samples, v)
		return
	}
	// deterministic rotation: replace slot when (seen*2654435761+seed) hits a sparse residue
	h := uint64(r.sampleSeen)*2654435761 + uint64(r.Seed)*40503
	if h%(uint64(r.sampleSeen)/4+1) == 0 {
		r.P.Samples[h%uint64(r.maxSamples)] = v
	}
}

// Violate records a violation under a signature; the first case per signature is kept.
func (r *Run) Violate(sig, what string, cs, observed, expected any) {
	r.mu.Lock()
	defer r.mu.Unlock()
	if v, ok := r.P.Violations[sig]; ok {
		v.Count++
		return
	}
	r.P.Violations[sig] = &Violation{Signature: sig, What: what, Case: cs, Observed: observed, Expected: expected, Count: 1}
}

// Local is an unsynchronised accumulator for one goroutine; merge it at the end.
type Local struct {
	P *Partial
}

func NewLocal() *Local { return &Local{P: newPartial()} }

func (l *Local) Add(name string, n int64) { l.P.Counters[name] += n }
func (l *Local) Outcome(k string)         { l.P.Outcomes[k]++ }
func (l *Local) Violate(sig, what string, cs, observed, expected any) {
	if v, ok := l.P.Violations[sig]; ok {
		v.Count++
		return
	}
	l.P.Violations[sig] = &Violation{Signature: sig, What: what, Case: cs, Observed: observed, Expected: expected, Count: 1}
}
func (l *Local) Sample(v any) {
	if len(l.P.Samples) < 3 {
		l.P.Samples = append(l.P.Samples, v)
	}
}

// Merge folds a local accumulator (or a worker's partial) into the run.
func (r *Run) Merge(p *Partial) {
	r.mu.Lock()
	defer r.mu.Unlock()
	for k, v := range p.Counters {
		r.P.Counters[k] += v
	}
	for k, v := range p.Outcomes {
		r.P.Outcomes[k] += v
	}
	for k, v := range p.Violations {
		if o, ok := r.P.Violations[k]; ok {
			o.Count += v.Count
		} else {
			r.P.Violations[k] = v
		}
	}
	for _, s := range p.Samples {
		if len(r.P.Samples) < r.maxSamples {
			r.P.Samples = append(r.P.Samples, s)
		}
	}
	for _, c := range p.Caps {
		dup := false
		for _, o := range r.P.Caps {
			dup = dup || o == c
		}
		if !dup {
			r.P.Caps = append(r.P.Caps, c)
		}
		capped.Store(true)
	}
	r.P.Notes = append(r.P.Notes, p.Notes...)
}

// Parallel runs fn(i, local) for i in [0,n) on up to GOMAXPROCS goroutines and merges the locals.
func (r *Run) Parallel(n int, fn func(i int, l *Local)) {
	w := runtime.GOMAXPROCS(0)
	if w > n {
		w = n
	}
	if w < 1 {
		w = 1
	}
	var wg sync.WaitGroup
	var next int64
	var nmu sync.Mutex
	for g := 0; g < w; g++ {
		wg.Add(1)
		go func() {
			defer wg.Done()
			l := NewLocal()
			for {
				nmu.Lock()
				i := int(next)
				next++
				nmu.Unlock()
				if i >= n {
					break
				}
				fn(i, l)
			}
			r.Merge(l.P)
		}()
	}
	wg.Wait()
}

// IsWorker reports whether this process is a shard worker.
func (r *Run) IsWorker() bool { return r.Worker >= 0 }

// Shard reports whether work item i belongs to this process.
func (r *Run) Shard(i int) bool {
	if r.Worker < 0 || r.NWorkers <= 0 {
		return true
	}
	return i%r.NWorkers == r.Worker
}

// PartsDir is the directory the workers of THIS coordinator process write their partial results to. It is private
// to the process, so that two runs of the same check (e.g. a trial on a private copy next to a thorough run) never
// read each other's parts.
func (r *Run) PartsDir() string {
	return filepath.Join(VerifDir, ".build", "parts", fmt.Sprintf("%s-%d", r.Prop, os.Getpid()))
}

// SpawnWorkers re-executes this binary n times with -worker i and merges the partials.
// env entries are added to each worker's environment (e.g. GOMAXPROCS=1).
// A worker that dies abnormally is reported through the returned list.
func (r *Run) SpawnWorkers(n int, env []string, extraArgs ...string) (crashed []string) {
	dir := r.PartsDir()
	_ = os.MkdirAll(dir, 0o755)
	var wg sync.WaitGroup
	var mu sync.Mutex
	for i := 0; i < n; i++ {
		wg.Add(1)
		go func(i int) {
			defer wg.Done()
			out := filepath.Join(dir, fmt.Sprintf("part%d.json", i))
			_ = os.Remove(out)
			args := []string{"-tier", r.Tier, "-worker", strconv.Itoa(i), "-nworkers", strconv.Itoa(n), "-out", out}
			if !r.Deadline.IsZero() {
				args = append(args, "-budget", time.Until(r.Deadline).String())
			}
			args = append(args, extraArgs...)
			cmd := exec.Command(os.Args[0], args...)
			cmd.Env = append(os.Environ(), env...)
			cmd.Stderr = os.Stderr
			stdout, _ := cmd.StdoutPipe()
			if err := cmd.Start(); err != nil {
				mu.Lock()
				crashed = append(crashed, fmt.Sprintf("worker %d: %v", i, err))
				mu.Unlock()
				return
			}
			sc := bufio.NewScanner(stdout)
			sc.Buffer(make([]byte, 1<<20), 1<<24)
			last := ""
			for sc.Scan() {
				last = sc.Text()
			}
			err := cmd.Wait()
			b, rerr := os.ReadFile(out)
			if err != nil || rerr != nil {
				mu.Lock()
				crashed = append(crashed, fmt.Sprintf("worker %d: err=%v last=%q", i, err, last))
				mu.Unlock()
				if rerr != nil {
					return
				}
			}
			var p Partial
			if json.Unmarshal(b, &p) == nil {
				if p.Counters == nil {
					p.Counters = map[string]int64{}
				}
				r.Merge(&p)
			}
			_ = os.Remove(out)
		}(i)
	}
	wg.Wait()
	return crashed
}

// FinishWorker writes the partial and exits.
func (r *Run) FinishWorker() {
	b, _ := json.Marshal(r.P)
	if err := os.WriteFile(r.Out, b, 0o644); err != nil {
		fmt.Fprintln(os.Stderr, "worker write:", err)
		os.Exit(3)
	}
	os.Exit(0)
}

// KnownFinding is one line of /verif/known_findings.jsonl.
type KnownFinding struct {
	Property  string `json:"property"`
	Status    string `json:"status"` // "known" | "fixed"
	Signature string `json:"signature"`
	What      string `json:"what"`
	Commit    string `json:"commit,omitempty"`
}

func loadKnown(prop string) []KnownFinding {
	f, err := os.Open(filepath.Join(VerifDir, "known_findings.jsonl"))
	if err != nil {
		return nil
	}
	defer f.Close()
	var out []KnownFinding
	sc := bufio.NewScanner(f)
	sc.Buffer(make([]byte, 1<<20), 1<<22)
	for sc.Scan() {
		line := strings.TrimSpace(sc.Text())
		if line == "" || strings.HasPrefix(line, "#") {
			continue
		}
		var k KnownFinding
		if json.Unmarshal([]byte(line), &k) == nil && k.Property == prop {
			out = append(out, k)
		}
	}
	return out
}

// Evidence describes what Finish writes; Coverage keys follow EVIDENCE.schema.json.
type Evidence struct {
	Level       string         // exploration | model_checking | ...
	Coverage    map[string]any // extra keys; evaluations etc. filled by caller
	Assumptions []string
	Exhaustive  bool
	// MinOutcomes is the anti-vacuity floor on distinct outcomes (default 2).
	MinOutcomes int
}

func sigFile(sig string) string {
	h := sha1.Sum([]byte(sig))
	s := strings.Map(func(r rune) rune {
		if r >= 'a' && r <= 'z' || r >= 'A' && r <= 'Z' || r >= '0' && r <= '9' || r == '-' || r == '_' {
			return r
		}
		return '_'
	}, sig)
	if len(s) > 60 {
		s = s[:60]
	}
	return s + "-" + hex.EncodeToString(h[:4])
}

// Finish writes the evidence file, prints KNOWN-FINDING / VIOLATION lines and exits.
func (r *Run) Finish(ev Evidence) {
	if r.Worker < 0 {
		_ = os.RemoveAll(r.PartsDir())
	}
	if r.IsWorker() {
		r.FinishWorker()
	}
	known := loadKnown(r.Prop)
	knownBySig := map[string]KnownFinding{}
	for _, k := range known {
		if k.Status == "known" {
			knownBySig[k.Signature] = k
		}
	}
	// stale replay files of earlier runs must not be mistaken for this run's
	_ = os.RemoveAll(filepath.Join(envOr("VERIF_REPLAY_DIR", filepath.Join(VerifDir, "replays")), r.Prop))
	sigs := make([]string, 0, len(r.P.Violations))
	for s := range r.P.Violations {
		sigs = append(sigs, s)
	}
	sort.Strings(sigs)
	newViol := 0
	knownHit := 0
	var vlist []map[string]any
	for _, s := range sigs {
		v := r.P.Violations[s]
		if k, ok := knownBySig[s]; ok {
			knownHit++
			fmt.Printf("KNOWN-FINDING: property=%s %s [signature=%s, %d case(s) this run]\n", r.Prop, k.What, s, v.Count)
			vlist = append(vlist, map[string]any{"signature": s, "known": true, "count": v.Count})
			continue
		}
		newViol++
		if newViol > 30 {
			vlist = append(vlist, map[string]any{"signature": s, "known": false, "count": v.Count})
			continue
		}
		dir := filepath.Join(envOr("VERIF_REPLAY_DIR", filepath.Join(VerifDir, "replays")), r.Prop)
		_ = os.MkdirAll(dir, 0o755)
		path := filepath.Join(dir, sigFile(s)+".json")
		v.Harness = r.Prop
		b, _ := json.MarshalIndent(v, "", " ")
		_ = os.WriteFile(path, b, 0o644)
		fmt.Printf("VIOLATION property=%s replay=%s\n", r.Prop, path)
		fmt.Printf("  signature: %s\n  what: %s\n  cases with this signature: %d\n", s, v.What, v.Count)
		vlist = append(vlist, map[string]any{"signature": s, "known": false, "count": v.Count, "replay": path})
	}
	if newViol > 30 {
		fmt.Printf("... and %d more violation signatures (listed in the evidence file)\n", newViol-30)
	}
	for s, k := range knownBySig {
		if _, ok := r.P.Violations[s]; !ok {
			fmt.Printf("NOTE: known finding not reproduced this run (not an error): %s [%s]\n", k.What, s)
		}
	}
	cov := map[string]any{}
	for k, v := range ev.Coverage {
		cov[k] = v
	}
	cov["counters"] = r.P.Counters
	cov["distinct_outcomes"] = len(r.P.Outcomes)
	if len(r.P.Outcomes) <= 40 {
		cov["outcome_histogram"] = r.P.Outcomes
	}
	exhaustive := ev.Exhaustive && len(r.P.Caps) == 0
	cov["exhaustive"] = exhaustive
	if len(r.P.Caps) > 0 {
		cov["caps_hit"] = r.P.Caps
	}
	if len(r.P.Notes) > 0 {
		cov["notes"] = r.P.Notes
	}
	if _, ok := cov["samples"]; !ok {
		cov["samples"] = r.P.Samples
	}
	if len(vlist) > 0 {
		cov["violation_signatures"] = vlist
	}
	wall := time.Since(r.Start).Seconds()
	doc := map[string]any{
		"property_id":        r.Prop,
		"tier":               r.Tier,
		"seed":               r.Seed,
		"level":              ev.Level,
		"coverage":           cov,
		"assumptions":        ev.Assumptions,
		"wall_s":             float64(int(wall*100)) / 100,
		"violations":         newViol,
		"known_findings_hit": knownHit,
	}
	b, _ := json.MarshalIndent(doc, "", " ")
	evdir := envOr("VERIF_EVIDENCE_DIR", filepath.Join(VerifDir, "evidence"))
	_ = os.MkdirAll(evdir, 0o755)
	if err := os.WriteFile(filepath.Join(evdir, r.Prop+".json"), b, 0o644); err != nil {
		fmt.Fprintln(os.Stderr, "cannot write evidence:", err)
		os.Exit(2)
	}
	minOut := ev.MinOutcomes
	if minOut == 0 {
		minOut = 2
	}
	fmt.Printf("%s %s: outcomes=%d violations=%d known=%d exhaustive=%v wall=%.1fs\n", r.Prop, r.Tier, len(r.P.Outcomes), newViol, knownHit, exhaustive, wall)
	if newViol > 0 {
		os.Exit(1)
	}
	if len(r.P.Outcomes) < minOut {
		fmt.Fprintf(os.Stderr, "HARNESS-ERROR: vacuous exploration: only %d distinct outcomes\n", len(r.P.Outcomes))
		os.Exit(2)
	}
	os.Exit(0)
}

// Fatal reports a harness error (never a violation) and exits 2.
func Fatal(format string, a ...any) {
	// An anti-vacuity assertion ("vacuous: ...") only makes sense for a run that was allowed to finish: when a budget
	// or cap cut the exploration short (the run ends with exhaustive:false, exit 0) a family that was never reached
	// is not a harness error.
	if capped.Load() && strings.HasPrefix(format, "vacuous") {
		fmt.Fprintf(os.Stderr, "NOTE: anti-vacuity assertion not applied to a capped run: "+format+"\n", a...)
		return
	}
	fmt.Fprintf(os.Stderr, "HARNESS-ERROR: "+format+"\n", a...)
	os.Exit(2)
}

// capped is set as soon as any cap is recorded in this process (directly or merged from a worker).
var capped atomic.Bool

// Key renders any value to a compact canonical JSON string (maps are sorted by encoding/json).
func Key(v any) string {
	b, err := json.Marshal(v)
	if err != nil {
		return fmt.Sprintf("%#v", v)
	}
	return string(b)
}
