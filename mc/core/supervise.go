package core

import (
	"bytes"
	"io"
	"os"
	"os/exec"
	"strings"
	"syscall"
)

// headWriter keeps the first max bytes written to it.
type headWriter struct {
	buf bytes.Buffer
	max int
}

func (h *headWriter) Write(p []byte) (int, error) {
	if room := h.max - h.buf.Len(); room > 0 {
		if len(p) < room {
			room = len(p)
		}
		h.buf.Write(p[:room])
	}
	return len(p), nil
}

// SuperviseSelf re-executes the harness as a child process (call it first in main). A harness that serves requests
// on several goroutines of ONE process dies as a whole when the Go runtime aborts inside the code under test
// ("fatal error: concurrent map iteration and map write" and the like: no recover() intercepts those). Such a death is
// not a harness error: package-level state of the code under test was shared between requests served on SEPARATE
// apps. The supervisor reports it as a violation (signature "process-died <runtime message>", replay = the head of the
// child's stderr) when the goroutine that died was executing the code under test; every other exit status of the
// child, harness errors included, is passed through unchanged.
func SuperviseSelf(prop string) {
	if os.Getenv("VERIF_SUPERVISED") != "" {
		return
	}
	for _, a := range os.Args[1:] {
		if a == "-worker" || a == "--worker" {
			return // shard workers are supervised by the process that spawned them
		}
	}
	cmd := exec.Command(os.Args[0], os.Args[1:]...)
	cmd.Env = append(os.Environ(), "VERIF_SUPERVISED=1")
	cmd.Stdin, cmd.Stdout = os.Stdin, os.Stdout
	cmd.SysProcAttr = &syscall.SysProcAttr{Pdeathsig: syscall.SIGKILL} // the child never outlives a killed supervisor
	head := &headWriter{max: 256 << 10}
	cmd.Stderr = io.MultiWriter(os.Stderr, head)
	err := cmd.Run()
	code := 0
	if err != nil {
		code = 2
		if ee, ok := err.(*exec.ExitError); ok && ee.ExitCode() >= 0 {
			code = ee.ExitCode()
		}
	}
	if code == 0 || code == 1 {
		os.Exit(code)
	}
	msg, inSUT := runtimeDeath(head.buf.String())
	if msg == "" || !inSUT {
		os.Exit(code)
	}
	r := Start(prop)
	lines := strings.Split(head.buf.String(), "\n")
	if len(lines) > 80 {
		lines = lines[:80]
	}
	r.Violate("process-died "+msg, "the Go runtime aborted the whole process while a goroutine was executing the code under test "+
		"(requests were being served concurrently on separate apps; no recover() intercepts a runtime fatal error)",
		map[string]any{"stderr_head": lines}, msg, "no fatal error")
	r.Outcome("process died: " + msg)
	r.Finish(Evidence{Level: "exploration", Exhaustive: false, MinOutcomes: 1, Coverage: map[string]any{
		"rule": "the harness process died before it could write its evidence; this record was written by its supervisor"}})
}

// runtimeDeath finds a Go runtime fatal error in a stderr dump and tells whether the first goroutine listed (the one
// that died) was inside the code under test: its innermost non-runtime frame belongs to gofiber/fiber or to fasthttp
// (not to the harness, package main / verifmc).
func runtimeDeath(s string) (msg string, inSUT bool) {
	i := strings.Index(s, "fatal error: ")
	if i < 0 || (i > 0 && s[i-1] != '\n') {
		return "", false
	}
	rest := s[i:]
	end := strings.IndexByte(rest, '\n')
	if end < 0 {
		return "", false
	}
	msg = strings.TrimSpace(rest[:end])
	// first goroutine block
	g := strings.Index(rest, "\ngoroutine ")
	if g < 0 {
		return msg, false
	}
	block := rest[g+1:]
	if e := strings.Index(block, "\n\n"); e >= 0 {
		block = block[:e]
	}
	for _, ln := range strings.Split(block, "\n")[1:] {
		if strings.HasPrefix(ln, "\t") || strings.HasPrefix(ln, " ") || ln == "" {
			continue // file:line lines
		}
		if strings.HasPrefix(ln, "runtime.") || strings.HasPrefix(ln, "internal/") || strings.HasPrefix(ln, "sync.") || strings.HasPrefix(ln, "sync/") {
			continue
		}
		// (fasthttp is the server the application under test runs on: a death while it serves / writes the response the
		// handlers built is a death of the system under test; harness frames - main, verifmc - come further out)
		return msg, (strings.HasPrefix(ln, "github.com/gofiber/fiber/v3") && !strings.Contains(ln, "/verifrt")) || strings.HasPrefix(ln, "github.com/valyala/fasthttp.")
	}
	return msg, false
}
