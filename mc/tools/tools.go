//go:build tools

// Package tools pins module requirements that not every harness imports.
package tools

import _ "github.com/anishathalye/porcupine"
