#!/bin/bash
# Offline setup: warm the Go build cache under /verif/.cache and pre-build every registered harness.
set -u
V=${VERIF_DIR:-/verif}
export GOFLAGS=-mod=mod GOPROXY=off GOSUMDB=off GOTOOLCHAIN=local
export GOCACHE=$V/.cache/go-build
mkdir -p "$V/.build/bin" "$V/.cache" "$V/evidence" "$V/replays"
cd "$V" || exit 1
ids=$(jq -r '.checks[].property_id' MANIFEST.json | sort -u)
fail=0
# build in parallel (4 at a time): the first build compiles fiber+fasthttp, later ones reuse the cache
printf '%s\n' $ids | head -1 | while read -r id; do VERIF_BUILD_ONLY=1 ./check "$id" quick || exit 1; done || fail=1
printf '%s\n' $ids | tail -n +2 | xargs -r -P 4 -I{} env VERIF_BUILD_ONLY=1 ./check {} quick || fail=1
# A harness that does not build is reported by its own check (every check rebuilds from the current tree);
# the pre-build is only a cache warm-up and must not keep the other checks from running.
[ $fail -eq 0 ] && echo "setup ok" || echo "setup: at least one harness did not pre-build (its check will report it)"
exit 0
