#!/bin/bash
# Offline setup: warm the Go build cache under /verif/.cache and pre-build every harness.
set -u
V=${VERIF_DIR:-/verif}
export GOFLAGS=-mod=mod GOPROXY=off GOSUMDB=off GOTOOLCHAIN=local
export GOCACHE=$V/.cache/go-build
mkdir -p "$V/.build/bin" "$V/.cache" "$V/evidence" "$V/replays"
cd "$V/mc" || exit 1
go build ./core ./fx || exit 1
for d in props/*/; do
  p=$(basename "$d")
  if [ -f "$d/overlay.spec" ]; then continue; fi
  go build -o "$V/.build/bin/$p" "./props/$p" || exit 1
done
echo "setup ok"
