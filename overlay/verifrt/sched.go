// Package verifrt is the cooperative scheduler (engine E2) that the overlay-rewritten
// fiber files and the harnesses share. Exactly one managed thread runs at a time; every
// synchronisation operation calls Point before acting, and the scheduler asks the
// explorer which enabled thread runs next.
//
// This package is compiled into the fiber module as a *virtual* package through
// `go build -overlay`; it does not exist in /repo.
package verifrt

import (
	"fmt"
	"reflect"
	"runtime"
	"runtime/debug"
	"sync"
	"time"
)

// Chooser picks one of n alternatives. costly tells whether alternatives other than 0
// consume deviation budget (a preemption, an environment deviation).
type Chooser func(kind string, n int, costly bool, label string) int

// Event is one scheduling step of the trace.
type Event struct {
	T    int    `json:"t"`
	Op   string `json:"op"`
	Obj  int    `json:"obj,omitempty"`
	Note string `json:"note,omitempty"`
}

type thread struct {
	id      int
	name    string
	wake    chan struct{}
	done    bool
	daemon  bool
	enabled func() bool
	op      string
	obj     int
	steps   int
	last    uint64 // hash of this thread's last event (happens-before hashing)
	started bool
}

// Result describes how an execution ended.
type Result struct {
	Deadlock   bool
	Blocked    []string // "name@op" of threads blocked at the end (non-daemon)
	Horizon    bool     // step horizon exceeded (livelock suspicion)
	Panics     []string // "thread: value" for every managed thread that panicked
	PanicStack []string
	Steps      int
	Threads    int
	Trace      []Event
	Stuck      string // watchdog: a managed thread blocked outside the scheduler
}

// Sched is one execution's scheduler.
type Sched struct {
	choose   Chooser
	threads  []*thread
	cur      *thread
	now      int64 // virtual nanoseconds since Epoch
	dying    bool
	finished chan struct{}
	once     sync.Once
	wg       sync.WaitGroup
	res      Result
	MaxSteps int
	KeepTrace bool
	objIDs   map[any]int
	objLast  map[int]uint64
	resets   []func()
	// StateKey, when set, is mixed into the happens-before key recorded at each choice.
	StateKey func() string
}

var cur *Sched

// Epoch is virtual time zero (a fixed instant so that nothing depends on the wall clock).
var Epoch = time.Date(2030, 1, 1, 0, 0, 0, 0, time.UTC)

// Active returns the running scheduler, or nil outside managed executions (pass-through mode).
func Active() *Sched {
	s := cur
	if s == nil || s.dying {
		return nil
	}
	return s
}

// Dying reports whether the execution is being torn down (shims must become no-ops).
func Dying() bool { s := cur; return s != nil && s.dying }

// Options configures Run.
type Options struct {
	MaxSteps  int
	KeepTrace bool
	StateKey  func() string
	Watchdog  time.Duration
}

// persistent reset hooks (package-level shim objects such as pools register themselves once).
var (
	regMu     sync.Mutex
	resetters []func()
)

// RegisterReset registers a hook run before every execution (used by shimmed package-level pools).
func RegisterReset(f func()) {
	regMu.Lock()
	resetters = append(resetters, f)
	regMu.Unlock()
}

// Run executes body as managed thread 0 under the chooser and returns when every non-daemon
// thread has finished, a deadlock was detected, or the horizon was exceeded. All managed
// goroutines have exited when Run returns.
func Run(choose Chooser, opt Options, body func()) Result {
	if cur != nil {
		panic("verifrt: nested Run")
	}
	regMu.Lock()
	rs := append([]func(){}, resetters...)
	regMu.Unlock()
	for _, f := range rs {
		f()
	}
	s := &Sched{choose: choose, finished: make(chan struct{}), MaxSteps: opt.MaxSteps, KeepTrace: opt.KeepTrace,
		objIDs: map[any]int{}, objLast: map[int]uint64{}, StateKey: opt.StateKey}
	if s.MaxSteps == 0 {
		s.MaxSteps = 100000
	}
	cur = s
	t0 := s.newThread("main", false, body)
	s.cur = t0
	t0.started = true
	t0.wake <- struct{}{}
	wd := opt.Watchdog
	if wd == 0 {
		wd = 60 * time.Second
	}
	select {
	case <-s.finished:
	case <-time.After(wd):
		s.res.Stuck = fmt.Sprintf("watchdog: no progress for %v; running thread %q at op %q (a managed thread blocked outside the scheduler: unsupported blocking operation)", wd, s.cur.name, s.cur.op)
		// cannot tear down safely: the process must exit
		cur = nil
		return s.res
	}
	// tear down: wake every parked thread (dying is set) so that it leaves through Goexit
	for _, t := range s.threads {
		if !t.done {
			select {
			case t.wake <- struct{}{}:
			default:
			}
		}
	}
	s.wg.Wait()
	for _, f := range s.resets {
		f()
	}
	s.res.Steps = 0
	for _, t := range s.threads {
		s.res.Steps += t.steps
	}
	s.res.Threads = len(s.threads)
	cur = nil
	return s.res
}

// OnReset registers a per-execution cleanup (shim objects restoring their pass-through state).
func (s *Sched) OnReset(f func()) { s.resets = append(s.resets, f) }

func (s *Sched) newThread(name string, daemon bool, body func()) *thread {
	t := &thread{id: len(s.threads), name: name, daemon: daemon, wake: make(chan struct{}, 1)}
	s.threads = append(s.threads, t)
	s.wg.Add(1)
	go func() {
		defer s.wg.Done()
		<-t.wake
		if s.dying {
			t.done = true
			return
		}
		defer func() {
			r := recover()
			if s.dying {
				t.done = true
				return
			}
			if r != nil {
				s.res.Panics = append(s.res.Panics, fmt.Sprintf("%s: %v", t.name, r))
				if len(s.res.PanicStack) < 3 {
					s.res.PanicStack = append(s.res.PanicStack, string(debug.Stack()))
				}
			}
			s.exit(t)
		}()
		body()
	}()
	return t
}

// Go spawns a managed thread (the overlay rewrites `go f(x)` into verifrt.Go(func(){ f(x) })).
func Go(body func()) { GoNamed("", false, body) }

// GoDaemon spawns a managed thread whose being blocked at the end is not a deadlock.
func GoDaemon(body func()) { GoNamed("", true, body) }

// NoDaemonsOutsideRun: a harness whose sequential parts build millions of instances outside executions sets this so
// that background janitors rewritten into daemon threads (overlay directive daemongo) are simply not started there
// (what the directive dropgo does everywhere); inside an execution they run under the scheduler.
var NoDaemonsOutsideRun bool

// GoNamed spawns a named managed thread.
func GoNamed(name string, daemon bool, body func()) {
	s := Active()
	if s == nil {
		if Dying() || daemon && NoDaemonsOutsideRun {
			return
		}
		go body()
		return
	}
	if name == "" {
		name = fmt.Sprintf("t%d", len(s.threads))
	}
	t := s.newThread(name, daemon, body)
	t.op = "start"
	t.enabled = nil
	// spawning is itself a scheduling point: the child may run before the parent continues
	Point("spawn", nil, nil)
	_ = t
}

func (s *Sched) objID(o any) int {
	if o == nil {
		return 0
	}
	// maps, slices and funcs are not hashable: identify them by their data pointer
	switch rv := reflect.ValueOf(o); rv.Kind() {
	case reflect.Map, reflect.Slice, reflect.Func:
		o = rv.Pointer()
	}
	if id, ok := s.objIDs[o]; ok {
		return id
	}
	id := len(s.objIDs) + 1
	s.objIDs[o] = id
	return id
}

func isEnabled(t *thread) bool {
	if t.done {
		return false
	}
	if t.enabled == nil {
		return true
	}
	return t.enabled()
}

// Point is called by the running thread before a synchronisation operation on obj.
// enabled (nil = always) tells whether the operation can proceed in the current state.
// When Point returns, the caller is the running thread and enabled() holds.
func Point(op string, obj any, enabled func() bool) {
	s := cur
	if s == nil {
		return
	}
	if s.dying {
		runtime.Goexit()
	}
	t := s.cur
	t.op = op
	t.obj = s.objID(obj)
	t.enabled = enabled
	t.steps++
	s.res.Steps++
	if s.res.Steps > s.MaxSteps {
		s.res.Horizon = true
		s.finish()
		runtime.Goexit()
	}
	s.reschedule(t)
	// t runs: record the event for happens-before hashing
	h := mix(uint64(t.id+1)*0x9e3779b97f4a7c15, uint64(t.steps), hashStr(op), uint64(t.obj), t.last, s.objLast[t.obj])
	t.last = h
	if t.obj != 0 {
		s.objLast[t.obj] = h
	}
	if s.KeepTrace {
		s.res.Trace = append(s.res.Trace, Event{T: t.id, Op: op, Obj: t.obj})
	}
}

// StateHash returns the happens-before key of the current state (0 outside executions).
func StateHash() uint64 {
	if s := cur; s != nil {
		return s.hbKey()
	}
	return 0
}

// hbKey summarises the happens-before state: last event hash of every thread (+ harness state).
func (s *Sched) hbKey() uint64 {
	h := uint64(len(s.threads))
	for _, t := range s.threads {
		x := t.last
		if t.done {
			x ^= 0xdead
		}
		// include the pending operation: it is part of the thread's state
		h = mix(h, x, hashStr(t.op), uint64(t.obj))
	}
	h = mix(h, uint64(s.now))
	if s.StateKey != nil {
		h = mix(h, hashStr(s.StateKey()))
	}
	return h
}

func (s *Sched) reschedule(t *thread) {
	// canonical order: the running thread first if still enabled, then ascending ids
	var en []*thread
	selfEnabled := !t.done && isEnabled(t)
	if selfEnabled {
		en = append(en, t)
	}
	for _, o := range s.threads {
		if o != t && isEnabled(o) {
			en = append(en, o)
		}
	}
	if len(en) == 0 {
		s.finish()
		if !t.done {
			runtime.Goexit()
		}
		return
	}
	idx := 0
	if len(en) > 1 {
		idx = s.choose("sched", len(en), selfEnabled, t.name+"@"+t.op)
		if idx < 0 || idx >= len(en) {
			idx = 0
		}
	}
	next := en[idx]
	if next == t {
		return
	}
	s.cur = next
	next.wake <- struct{}{}
	if t.done {
		return
	}
	<-t.wake
	if s.dying {
		runtime.Goexit()
	}
}

func (s *Sched) exit(t *thread) {
	t.done = true
	t.op = "exit"
	all := true
	for _, o := range s.threads {
		if !o.done && !o.daemon {
			all = false
		}
	}
	if all {
		// every non-daemon thread is done: the execution is over even if daemons could run
		s.finish()
		return
	}
	s.reschedule(t)
}

func (s *Sched) finish() {
	s.once.Do(func() {
		for _, o := range s.threads {
			// a thread waiting for the virtual clock is not deadlocked: time could still advance
			if !o.done && !o.daemon && o.op != "sleep" {
				s.res.Blocked = append(s.res.Blocked, o.name+"@"+o.op)
			}
		}
		if len(s.res.Blocked) > 0 && !s.res.Horizon {
			s.res.Deadlock = true
		}
		s.dying = true
		close(s.finished)
	})
}

// Yield is a harness seam: a plain scheduling point with a label.
func Yield(label string) { Point(label, nil, nil) }

// YieldOn is a scheduling point attributed to an object (dependent with other ops on it).
func YieldOn(label string, obj any) { Point(label, obj, nil) }

// Quiesce parks the caller until no other thread is enabled.
func Quiesce() {
	s := Active()
	if s == nil {
		return
	}
	me := s.cur
	Point("quiesce", nil, func() bool {
		for _, o := range s.threads {
			if o != me && !o.done && isEnabled(o) {
				return false
			}
		}
		return true
	})
}

// Join parks the caller until all threads spawned so far (other than daemons and itself) are done.
func Join() {
	s := Active()
	if s == nil {
		return
	}
	me := s.cur
	Point("join", nil, func() bool {
		for _, o := range s.threads {
			// threads parked on the virtual clock (background tickers of the code under test) are not joined
			if o != me && !o.done && !o.daemon && o.op != "sleep" {
				return false
			}
		}
		return true
	})
}

// Now returns the virtual time.
func Now() time.Time {
	s := cur
	if s == nil {
		return time.Now()
	}
	return Epoch.Add(time.Duration(s.now))
}

// NowNanos returns virtual nanoseconds since Epoch (0 outside executions).
func NowNanos() int64 {
	s := cur
	if s == nil {
		return 0
	}
	return s.now
}

// Advance moves the virtual clock forward; sleepers whose deadline passed become enabled.
func Advance(d time.Duration) {
	s := Active()
	if s == nil {
		return
	}
	s.now += int64(d)
	Point("advance", nil, nil)
}

// SleepUntil parks the caller until the virtual clock reaches the deadline (nanoseconds since Epoch).
func SleepUntil(deadline int64) {
	s := Active()
	if s == nil {
		return
	}
	Point("sleep", nil, func() bool { return s.now >= deadline })
}

// MarkDaemon turns the calling thread into a daemon (background loops).
func MarkDaemon() {
	if s := Active(); s != nil {
		s.cur.daemon = true
	}
}

// CurrentName returns the running thread's name.
func CurrentName() string {
	if s := Active(); s != nil {
		return s.cur.name
	}
	return ""
}

// CurrentID returns the running thread's id (-1 outside executions).
func CurrentID() int {
	if s := Active(); s != nil {
		return s.cur.id
	}
	return -1
}

// ---- channel helpers used by the overlay's channel rewrite (T3) ----------------------

func chanRecvReady(ch reflect.Value) bool {
	if !ch.IsValid() || ch.IsNil() {
		return false
	}
	if ch.Len() > 0 {
		return true
	}
	if deliver, ok := timerChans[ch.Pointer()]; ok {
		return deliver()
	}
	// closed and empty: a receive would not block. reflect cannot ask "closed?" without
	// receiving; TryRecv on an empty channel returns (zero, false) both when nothing is
	// buffered (open) and when closed — distinguish through the select-default trick.
	return chanClosed(ch)
}

// timerChans: channels of virtual tickers (vtime.NewTicker inside an execution). Such a channel is ready when the
// virtual clock has reached the ticker's next tick; deliver() puts that tick into the (buffered) channel and reports
// whether one is waiting, so that a select over `<-ticker.C` works like a real one.
var timerChans = map[uintptr]func() bool{}

// RegisterTimerChan makes ch (a buffered channel owned by a virtual ticker) known to the scheduler for this execution.
func RegisterTimerChan(ch any, deliver func() bool) {
	s := Active()
	if s == nil {
		return
	}
	key := reflect.ValueOf(ch).Pointer()
	timerChans[key] = deliver
	s.OnReset(func() { delete(timerChans, key) })
}

func chanClosed(ch reflect.Value) bool {
	// Only called when Len()==0. A receive on a closed empty channel returns immediately
	// with ok=false; on an open empty channel TryRecv returns (zero Value invalid, false).
	v, ok := ch.TryRecv()
	if ok {
		// we consumed a value that arrived between Len and TryRecv — impossible under the
		// cooperative scheduler (single running thread); treat as harness error.
		panic("verifrt: channel changed outside the scheduler")
	}
	return v.IsValid() // valid zero value => closed; invalid => would block
}

// AwaitRecv parks until a receive on ch would not block.
func AwaitRecv(ch any) {
	if Active() == nil {
		return
	}
	v := reflect.ValueOf(ch)
	Point("recv", chanKey(v), func() bool { return chanRecvReady(v) })
}

// AwaitSend parks until a send on ch would not block (buffer space; unbuffered channels are not supported).
func AwaitSend(ch any) {
	if Active() == nil {
		return
	}
	v := reflect.ValueOf(ch)
	Point("send", chanKey(v), func() bool {
		if !v.IsValid() || v.IsNil() {
			return false
		}
		if v.Cap() == 0 {
			panic("verifrt: send on unbuffered channel is not modelled")
		}
		return v.Len() < v.Cap()
	})
}

func chanKey(v reflect.Value) any {
	if !v.IsValid() || v.IsNil() {
		return nil
	}
	return v.Pointer()
}

// ChanObj returns the identity under which channel ch takes part in happens-before hashing;
// harness seams that act on a channel from outside (closing it, cancelling a context) must
// attribute their scheduling point to it: verifrt.YieldOn(label, verifrt.ChanObj(ch)).
func ChanObj(ch any) any { return chanKey(reflect.ValueOf(ch)) }

// SelectRecv parks until at least one of the receive channels is ready and returns the index of
// the case to take; among several ready cases the explorer chooses (Go's select is random).
func SelectRecv(chans ...any) int {
	s := Active()
	vs := make([]reflect.Value, len(chans))
	for i, c := range chans {
		vs[i] = reflect.ValueOf(c)
	}
	if s == nil {
		if Dying() {
			runtime.Goexit()
		}
		// pass-through: a real select
		cases := make([]reflect.SelectCase, len(vs))
		for i, v := range vs {
			cases[i] = reflect.SelectCase{Dir: reflect.SelectRecv, Chan: v}
		}
		// pass-through (outside explorations): a real blocking select. A received value is put
		// back (buffered channels only) because the rewritten case body performs the receive.
		chosen, recv, ok := reflect.Select(cases)
		if ok {
			if vs[chosen].Cap() == 0 {
				panic("verifrt: pass-through select on an unbuffered channel is not supported")
			}
			vs[chosen].Send(recv)
		}
		return chosen
	}
	Point("select", nil, func() bool {
		for _, v := range vs {
			if chanRecvReady(v) {
				return true
			}
		}
		return false
	})
	// happens-before bookkeeping: the select depends on (reads readiness of, and receives from)
	// every one of its channels — fold their last events into this thread's history and vice versa
	t := s.cur
	for _, v := range vs {
		if id := s.objID(chanKey(v)); id != 0 {
			h := mix(t.last, s.objLast[id], 0x5e1ec7)
			t.last = h
			s.objLast[id] = h
		}
	}
	var ready []int
	for i, v := range vs {
		if chanRecvReady(v) {
			ready = append(ready, i)
		}
	}
	if len(ready) == 1 {
		return ready[0]
	}
	k := s.choose("env", len(ready), true, "select")
	if k < 0 || k >= len(ready) {
		k = 0
	}
	return ready[k]
}

// MapOrder returns the keys of map m in the order the explorer picks (T4: owned map iteration).
// The default order is ascending by fmt.Sprint(key).
func MapOrder[K comparable, V any](m map[K]V) []K {
	keys := make([]K, 0, len(m))
	for k := range m {
		keys = append(keys, k)
	}
	sortKeys(keys)
	ch := envChooser
	if s := Active(); s != nil {
		ch = s.choose
	}
	if ch == nil || len(keys) < 2 {
		return keys
	}
	// choose a permutation by successive selection; each non-default pick is one env deviation
	out := make([]K, 0, len(keys))
	rest := keys
	for len(rest) > 1 {
		i := ch("env", len(rest), true, "maporder")
		if i < 0 || i >= len(rest) {
			i = 0
		}
		out = append(out, rest[i])
		rest = append(append([]K{}, rest[:i]...), rest[i+1:]...)
	}
	return append(out, rest...)
}

// envChooser serves MapOrder outside scheduled executions (sequential harnesses own map order too).
var envChooser Chooser

// SetEnvChooser installs the chooser used by MapOrder outside Run (nil = default order).
func SetEnvChooser(c Chooser) { envChooser = c }

func sortKeys[K comparable](keys []K) {
	ss := make([]string, len(keys))
	for i, k := range keys {
		ss[i] = fmt.Sprint(k)
	}
	// insertion sort (n is tiny)
	for i := 1; i < len(keys); i++ {
		for j := i; j > 0 && ss[j] < ss[j-1]; j-- {
			ss[j], ss[j-1] = ss[j-1], ss[j]
			keys[j], keys[j-1] = keys[j-1], keys[j]
		}
	}
}

func hashStr(s string) uint64 {
	h := uint64(14695981039346656037)
	for i := 0; i < len(s); i++ {
		h ^= uint64(s[i])
		h *= 1099511628211
	}
	return h
}

func mix(vs ...uint64) uint64 {
	h := uint64(0xcbf29ce484222325)
	for _, v := range vs {
		h ^= v
		h *= 0x100000001b3
		h ^= h >> 29
	}
	return h
}
