// Package vatomic replaces sync/atomic in overlay-rewritten files: every operation is a
// scheduling point (always enabled) followed by the real atomic operation.
package vatomic

import (
	"sync/atomic"

	"github.com/gofiber/fiber/v3/verifrt"
)

type (
	Value   = atomic.Value
	Bool    = atomic.Bool
	Int32   = atomic.Int32
	Int64   = atomic.Int64
	Uint32  = atomic.Uint32
	Uint64  = atomic.Uint64
	Uintptr = atomic.Uintptr
)

func pt(op string, addr any) {
	if verifrt.Active() != nil {
		verifrt.Point(op, addr, nil)
	}
}

func LoadInt32(addr *int32) int32   { pt("atomic.load", addr); return atomic.LoadInt32(addr) }
func LoadInt64(addr *int64) int64   { pt("atomic.load", addr); return atomic.LoadInt64(addr) }
func LoadUint32(addr *uint32) uint32 { pt("atomic.load", addr); return atomic.LoadUint32(addr) }
func LoadUint64(addr *uint64) uint64 { pt("atomic.load", addr); return atomic.LoadUint64(addr) }

func StoreInt32(addr *int32, v int32)    { pt("atomic.store", addr); atomic.StoreInt32(addr, v) }
func StoreInt64(addr *int64, v int64)    { pt("atomic.store", addr); atomic.StoreInt64(addr, v) }
func StoreUint32(addr *uint32, v uint32) { pt("atomic.store", addr); atomic.StoreUint32(addr, v) }
func StoreUint64(addr *uint64, v uint64) { pt("atomic.store", addr); atomic.StoreUint64(addr, v) }

func AddInt32(addr *int32, d int32) int32     { pt("atomic.add", addr); return atomic.AddInt32(addr, d) }
func AddInt64(addr *int64, d int64) int64     { pt("atomic.add", addr); return atomic.AddInt64(addr, d) }
func AddUint32(addr *uint32, d uint32) uint32 { pt("atomic.add", addr); return atomic.AddUint32(addr, d) }
func AddUint64(addr *uint64, d uint64) uint64 { pt("atomic.add", addr); return atomic.AddUint64(addr, d) }

func SwapInt32(addr *int32, v int32) int32     { pt("atomic.swap", addr); return atomic.SwapInt32(addr, v) }
func SwapInt64(addr *int64, v int64) int64     { pt("atomic.swap", addr); return atomic.SwapInt64(addr, v) }
func SwapUint32(addr *uint32, v uint32) uint32 { pt("atomic.swap", addr); return atomic.SwapUint32(addr, v) }
func SwapUint64(addr *uint64, v uint64) uint64 { pt("atomic.swap", addr); return atomic.SwapUint64(addr, v) }

func CompareAndSwapInt32(addr *int32, o, n int32) bool {
	pt("atomic.cas", addr)
	return atomic.CompareAndSwapInt32(addr, o, n)
}
func CompareAndSwapInt64(addr *int64, o, n int64) bool {
	pt("atomic.cas", addr)
	return atomic.CompareAndSwapInt64(addr, o, n)
}
func CompareAndSwapUint32(addr *uint32, o, n uint32) bool {
	pt("atomic.cas", addr)
	return atomic.CompareAndSwapUint32(addr, o, n)
}
func CompareAndSwapUint64(addr *uint64, o, n uint64) bool {
	pt("atomic.cas", addr)
	return atomic.CompareAndSwapUint64(addr, o, n)
}
