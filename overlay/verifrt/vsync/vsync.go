// Package vsync is the drop-in replacement for package sync in overlay-rewritten files.
// Outside managed executions every type behaves exactly like the original (it wraps it);
// inside, blocking is modelled through verifrt.Point and the explorer owns the order.
package vsync

import (
	"sync"

	"github.com/gofiber/fiber/v3/verifrt"
)

// Re-exported unmodelled identifiers (aliases: any use the shim does not cover fails to compile).
type (
	Map       = sync.Map
	Once      = sync.Once
	Locker    = sync.Locker
	Cond      = sync.Cond
)

// OnceFunc etc. are passed through.
var (
	OnceFunc = sync.OnceFunc
	NewCond  = sync.NewCond
)

// Mutex is a scheduler-aware sync.Mutex.
type Mutex struct {
	real   sync.Mutex
	locked bool
	reg    bool
}

func (m *Mutex) register(s *verifrt.Sched) {
	if !m.reg {
		m.reg = true
		s.OnReset(func() { m.locked = false; m.reg = false })
	}
}

func (m *Mutex) Lock() {
	s := verifrt.Active()
	if s == nil {
		if verifrt.Dying() {
			return
		}
		m.real.Lock()
		return
	}
	m.register(s)
	verifrt.Point("lock", m, func() bool { return !m.locked })
	m.locked = true
}

func (m *Mutex) TryLock() bool {
	s := verifrt.Active()
	if s == nil {
		if verifrt.Dying() {
			return true
		}
		return m.real.TryLock()
	}
	m.register(s)
	verifrt.Point("trylock", m, nil)
	if m.locked {
		return false
	}
	m.locked = true
	return true
}

func (m *Mutex) Unlock() {
	s := verifrt.Active()
	if s == nil {
		if verifrt.Dying() {
			return
		}
		m.real.Unlock()
		return
	}
	if !m.locked {
		panic("sync: unlock of unlocked mutex")
	}
	verifrt.Point("unlock", m, nil)
	m.locked = false
}

// RWMutex is a scheduler-aware sync.RWMutex (no writer preference is modelled: a reader may
// enter while a writer waits, which over-approximates Go's behaviour for safety properties).
type RWMutex struct {
	real    sync.RWMutex
	writer  bool
	readers int
	reg     bool
}

func (m *RWMutex) register(s *verifrt.Sched) {
	if !m.reg {
		m.reg = true
		s.OnReset(func() { m.writer = false; m.readers = 0; m.reg = false })
	}
}

func (m *RWMutex) Lock() {
	s := verifrt.Active()
	if s == nil {
		if verifrt.Dying() {
			return
		}
		m.real.Lock()
		return
	}
	m.register(s)
	verifrt.Point("lock", m, func() bool { return !m.writer && m.readers == 0 })
	m.writer = true
}

func (m *RWMutex) Unlock() {
	s := verifrt.Active()
	if s == nil {
		if verifrt.Dying() {
			return
		}
		m.real.Unlock()
		return
	}
	if !m.writer {
		panic("sync: Unlock of unlocked RWMutex")
	}
	verifrt.Point("unlock", m, nil)
	m.writer = false
}

func (m *RWMutex) RLock() {
	s := verifrt.Active()
	if s == nil {
		if verifrt.Dying() {
			return
		}
		m.real.RLock()
		return
	}
	m.register(s)
	verifrt.Point("rlock", m, func() bool { return !m.writer })
	m.readers++
}

func (m *RWMutex) RUnlock() {
	s := verifrt.Active()
	if s == nil {
		if verifrt.Dying() {
			return
		}
		m.real.RUnlock()
		return
	}
	if m.readers <= 0 {
		panic("sync: RUnlock of unlocked RWMutex")
	}
	verifrt.Point("runlock", m, nil)
	m.readers--
}

func (m *RWMutex) TryLock() bool {
	s := verifrt.Active()
	if s == nil {
		if verifrt.Dying() {
			return true
		}
		return m.real.TryLock()
	}
	m.register(s)
	verifrt.Point("trylock", m, nil)
	if m.writer || m.readers > 0 {
		return false
	}
	m.writer = true
	return true
}

func (m *RWMutex) TryRLock() bool {
	s := verifrt.Active()
	if s == nil {
		if verifrt.Dying() {
			return true
		}
		return m.real.TryRLock()
	}
	m.register(s)
	verifrt.Point("tryrlock", m, nil)
	if m.writer {
		return false
	}
	m.readers++
	return true
}

// RLocker mirrors sync.RWMutex.RLocker.
func (m *RWMutex) RLocker() sync.Locker { return (*rlocker)(m) }

type rlocker RWMutex

func (r *rlocker) Lock()   { (*RWMutex)(r).RLock() }
func (r *rlocker) Unlock() { (*RWMutex)(r).RUnlock() }

// WaitGroup is a scheduler-aware sync.WaitGroup.
type WaitGroup struct {
	real sync.WaitGroup
	n    int
	reg  bool
}

func (w *WaitGroup) Add(delta int) {
	s := verifrt.Active()
	if s == nil {
		if verifrt.Dying() {
			return
		}
		w.real.Add(delta)
		return
	}
	if !w.reg {
		w.reg = true
		s.OnReset(func() { w.n = 0; w.reg = false })
	}
	verifrt.Point("wg.add", w, nil)
	w.n += delta
	if w.n < 0 {
		panic("sync: negative WaitGroup counter")
	}
}

func (w *WaitGroup) Done() { w.Add(-1) }

func (w *WaitGroup) Wait() {
	s := verifrt.Active()
	if s == nil {
		if verifrt.Dying() {
			return
		}
		w.real.Wait()
		return
	}
	verifrt.Point("wg.wait", w, func() bool { return w.n == 0 })
}

// Pool is a deterministic LIFO pool. Inside executions Get/Put are scheduling points and the
// content is reset before every execution (executions must be independent); outside it
// forwards to a real sync.Pool.
type Pool struct {
	New   func() any
	real  sync.Pool
	items []any
	reg   bool
}

func (p *Pool) register(s *verifrt.Sched) {
	// per execution: a pool that outlives the execution (package level) starts the next one empty
	p.reg = true
	s.OnReset(func() { p.items = nil; p.reg = false })
}

func (p *Pool) Get() any {
	s := verifrt.Active()
	if s == nil {
		if verifrt.Dying() {
			if p.New != nil {
				return p.New()
			}
			return nil
		}
		p.real.New = p.New
		return p.real.Get()
	}
	if !p.reg {
		p.register(s)
	}
	verifrt.Point("pool.get", p, nil)
	if n := len(p.items); n > 0 {
		x := p.items[n-1]
		p.items = p.items[:n-1]
		return x
	}
	if p.New != nil {
		return p.New()
	}
	return nil
}

func (p *Pool) Put(x any) {
	s := verifrt.Active()
	if s == nil {
		if verifrt.Dying() {
			return
		}
		p.real.Put(x)
		return
	}
	if !p.reg {
		p.register(s)
	}
	verifrt.Point("pool.put", p, nil)
	p.items = append(p.items, x)
}
