// Package vtime replaces package time in overlay-rewritten files: Now/Since/Until/Sleep and
// tickers read the scheduler's virtual clock inside managed executions, or a harness-set
// clock in sequential harnesses (SetClock); everything else is re-exported unchanged.
package vtime

import (
	"time"

	"github.com/gofiber/fiber/v3/verifrt"
)

type (
	Duration = time.Duration
	Time     = time.Time
	Month    = time.Month
	Weekday  = time.Weekday
	Location = time.Location
	Timer    = time.Timer
)

const (
	Nanosecond  = time.Nanosecond
	Microsecond = time.Microsecond
	Millisecond = time.Millisecond
	Second      = time.Second
	Minute      = time.Minute
	Hour        = time.Hour

	RFC1123  = time.RFC1123
	RFC3339  = time.RFC3339
	RFC822   = time.RFC822
	RFC850   = time.RFC850
	ANSIC    = time.ANSIC
	DateTime = time.DateTime
	DateOnly = time.DateOnly
	TimeOnly = time.TimeOnly
)

var (
	UTC           = time.UTC
	Local         = time.Local
	Unix          = time.Unix
	UnixMilli     = time.UnixMilli
	Date          = time.Date
	Parse         = time.Parse
	ParseDuration = time.ParseDuration
	AfterFunc     = time.AfterFunc // not modelled; present for compilation only
	NewTimer      = time.NewTimer  // not modelled
)

// manual clock for sequential (unscheduled) harnesses; zero = not set
var manual time.Time
var manualSet bool

// SetClock fixes the clock seen by rewritten files outside scheduled executions.
func SetClock(t time.Time) { manual = t; manualSet = true }

// ClearClock returns to the wall clock outside scheduled executions.
func ClearClock() { manualSet = false }

// Now is the virtual clock.
func Now() time.Time {
	if verifrt.Active() != nil || verifrt.Dying() {
		return verifrt.Now()
	}
	if manualSet {
		return manual
	}
	return time.Now()
}

func Since(t time.Time) time.Duration { return Now().Sub(t) }
func Until(t time.Time) time.Duration { return t.Sub(Now()) }

// Sleep parks the calling managed thread until the virtual clock has advanced by d.
func Sleep(d time.Duration) {
	if verifrt.Active() == nil {
		if verifrt.Dying() {
			verifrt.Point("sleep", nil, nil) // leaves through Goexit
			return
		}
		if manualSet {
			// sequential harness with a manual clock: background sleepers must never spin
			select {}
		}
		time.Sleep(d)
		return
	}
	verifrt.SleepUntil(verifrt.NowNanos() + int64(d))
}

// Ticker is a virtual ticker: C never fires; loops `for range t.C`/`<-t.C` are rewritten by the
// overlay into Wait calls.
type Ticker struct {
	C      <-chan time.Time
	period time.Duration
	next   int64
	real   *time.Ticker
	stop   bool
}

func NewTicker(d time.Duration) *Ticker {
	if verifrt.Active() == nil && !manualSet && !verifrt.Dying() {
		rt := time.NewTicker(d)
		return &Ticker{C: rt.C, real: rt, period: d}
	}
	c := make(chan time.Time, 1)
	t := &Ticker{C: c, period: d, next: verifrt.NowNanos() + int64(d)}
	// a select over `<-t.C` (rewritten by the overlay into verifrt.SelectRecv) sees the tick when the virtual clock
	// has reached it
	verifrt.RegisterTimerChan(c, func() bool {
		if !t.stop && len(c) == 0 && verifrt.NowNanos() >= t.next {
			c <- verifrt.Now()
			// like a real ticker, ticks that were missed while the clock jumped are dropped
			if t.next += int64(t.period); t.next <= verifrt.NowNanos() {
				t.next = verifrt.NowNanos() + int64(t.period)
			}
		}
		return len(c) > 0
	})
	return t
}

func (t *Ticker) Stop() {
	t.stop = true
	if t.real != nil {
		t.real.Stop()
	}
}

func (t *Ticker) Reset(d time.Duration) {
	t.period = d
	if t.real != nil {
		t.real.Reset(d)
		return
	}
	t.next = verifrt.NowNanos() + int64(d)
}

// Wait parks until the next tick of the virtual ticker (used by rewritten `<-ticker.C`).
func (t *Ticker) Wait() time.Time {
	if t.real != nil {
		return <-t.real.C
	}
	if verifrt.Active() == nil {
		if verifrt.Dying() {
			verifrt.Point("tick", nil, nil)
		}
		select {} // manual clock outside executions: background tickers never fire
	}
	verifrt.MarkDaemon()
	verifrt.SleepUntil(t.next)
	t.next += int64(t.period)
	return verifrt.Now()
}

// After is only modelled outside executions.
func After(d time.Duration) <-chan time.Time { return time.After(d) }
