package fiber

// Read-only accessors for the C01 dispatch check (verification builds only; added through
// `go build -overlay`, never part of the repository). Nothing here changes router state.

// VerifRouteMatch calls the real per-route matcher of one route object.
func VerifRouteMatch(r *Route, detectionPath, path string) bool {
	var params [maxParams]string
	return r.match(detectionPath, path, &params)
}

// VerifPaths runs the real configDependentPaths for a raw request path (what Reset and
// Path(override) both do) and returns detection path, user path and the bucket key.
func VerifPaths(app *App, rawPath string) (detection, path string, hash int) {
	c := NewDefaultCtx(app)
	c.pathOriginal = rawPath
	c.configDependentPaths()
	return string(c.detectionPath), string(c.path), c.treePathHash
}

// VerifCtxPaths reads the paths of a live context (used to validate VerifPaths against real requests).
func VerifCtxPaths(c Ctx) (detection, path string, hash int, method int) {
	return string(append([]byte(nil), c.getDetectionPath()...)), string(append([]byte(nil), c.Path()...)), c.getTreePathHash(), c.getMethodInt()
}

// VerifRouteFlags exposes the routing flags of a route object.
func VerifRouteFlags(r *Route) (use, mount bool, pos uint32) { return r.use, r.mount, r.pos }

// VerifTree returns the bucket map of one method (the optimisation under test); callers must not modify it.
func VerifTree(app *App, methodInt int) map[int][]*Route {
	if methodInt < 0 || methodInt >= len(app.treeStack) {
		return nil
	}
	return app.treeStack[methodInt]
}

// VerifMethodInt maps a method name to the stack index.
func VerifMethodInt(app *App, method string) int { return app.methodInt(method) }
