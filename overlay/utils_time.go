package utils

// Overlay replacement of gofiber/utils time.go (verification builds only): the coarse
// timestamp is a variable owned by the harness instead of a wall-clock ticker goroutine.

import "sync/atomic"

var timestamp uint32 = 1_900_000_000

// strict model (opt-in, VerifNewProcess(true)): as in the real package the coarse clock reads 0 until somebody has
// called StartTimeStampUpdater - code that reads Timestamp() without starting the updater sees a clock that never moves.
var strict, started uint32

// Timestamp returns the harness-owned coarse clock.
func Timestamp() uint32 {
	if atomic.LoadUint32(&strict) == 1 && atomic.LoadUint32(&started) == 0 {
		return 0
	}
	return atomic.LoadUint32(&timestamp)
}

// VerifSetTimestamp sets the coarse clock (seconds).
func VerifSetTimestamp(v uint32) { atomic.StoreUint32(&timestamp, v) }

// VerifNewProcess models the start of a process: nobody has started the updater yet. With strictModel false (the
// default of every harness that does not call this) the clock always reads the harness value.
func VerifNewProcess(strictModel bool) {
	var s uint32
	if strictModel {
		s = 1
	}
	atomic.StoreUint32(&strict, s)
	atomic.StoreUint32(&started, 0)
}

// StartTimeStampUpdater starts nothing: nothing updates the clock but the harness. It is recorded for the strict model.
func StartTimeStampUpdater() { atomic.StoreUint32(&started, 1) }

// StopTimeStampUpdater is a no-op.
func StopTimeStampUpdater() {}
