package utils

// Overlay replacement of gofiber/utils time.go (verification builds only): the coarse
// timestamp is a variable owned by the harness instead of a wall-clock ticker goroutine.

import "sync/atomic"

var timestamp uint32 = 1_900_000_000

// Timestamp returns the harness-owned coarse clock.
func Timestamp() uint32 { return atomic.LoadUint32(&timestamp) }

// VerifSetTimestamp sets the coarse clock (seconds).
func VerifSetTimestamp(v uint32) { atomic.StoreUint32(&timestamp, v) }

// StartTimeStampUpdater is a no-op: nothing updates the clock but the harness.
func StartTimeStampUpdater() {}

// StopTimeStampUpdater is a no-op.
func StopTimeStampUpdater() {}
