package idempotency

// VerifLockedKeys returns the number of keys the MemoryLock still tracks (verification builds only).
func (l *MemoryLock) VerifLockedKeys() int { return len(l.keys) }
